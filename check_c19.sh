#!/bin/bash
# C19: builds the normal simulator (parent) and the AddressSanitizer + LeakSanitizer
# variant (children) from /repo's current working tree, then runs the FFI life cycles.
set -u
VERIF="$(cd "$(dirname "$0")" && pwd)"
export RITI_VERIF="$VERIF"
export RITI_REPO="${RITI_REPO:-/repo}"
export CARGO_NET_OFFLINE=true
export RUST_BACKTRACE=0
tier="${1:-quick}"
shift || true
mkdir -p "$VERIF/.cache"
log="$VERIF/.cache/build-asan.$$.log"
if ! (cd "$VERIF/sim" && cargo build --release --offline >"$log" 2>&1); then
    echo "HARNESS-ERROR: the simulator does not build:"; grep -E "^error" -A 12 "$log" | head -60; rm -f "$log"; exit 2
fi
if ! (cd "$VERIF/sim" && RUSTFLAGS='-Zsanitizer=address --cfg getrandom_backend="custom"' \
        cargo +nightly build --release --offline --target x86_64-unknown-linux-gnu \
        --target-dir "$VERIF/.cache/target-asan" >"$log" 2>&1); then
    echo "HARNESS-ERROR: the sanitizer build does not build:"; grep -E "^error" -A 12 "$log" | head -60; rm -f "$log"; exit 2
fi
rm -f "$log"
if [ "$tier" = "build-only" ]; then exit 0; fi
exec "$VERIF/.cache/target/release/riti-sim" ffi "$tier" "$@"
