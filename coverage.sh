#!/bin/bash
# coverage.sh [tier]: which lines of /repo/src the checks execute (measure of reach, not a check).
# Builds the simulator with -C instrument-coverage (nightly + its llvm-tools) into its own target
# directory, runs every scenario's tier, and prints per-file line coverage of /repo/src plus the
# uncovered lines (report in .cache/coverage/). Maintainer tool; nothing registered depends on it.
set -u
VERIF="$(cd "$(dirname "$0")" && pwd)"
export RITI_VERIF="$VERIF" RITI_REPO="${RITI_REPO:-/repo}" CARGO_NET_OFFLINE=true RUST_BACKTRACE=0
tier="${1:-quick}"
T="$VERIF/.cache/target-cov"; OUT="$VERIF/.cache/coverage"
TOOLS="$(dirname "$(rustc +nightly --print target-libdir)")/bin"
rm -rf "$OUT"; mkdir -p "$OUT/prof"
(cd "$VERIF/sim" && LLVM_PROFILE_FILE="$OUT/prof/build-%p-%m.profraw" RUSTFLAGS='-C instrument-coverage --cfg getrandom_backend="custom"' \
   cargo +nightly build --release --offline --target-dir "$T" 2>&1 | tail -2) || exit 2
BIN="$T/release/riti-sim"
rm -f "$OUT"/prof/build-*.profraw   # build scripts are instrumented too; their profiles are not wanted
export LLVM_PROFILE_FILE="$OUT/prof/%p-%m.profraw"
for p in C01 C02 C05 C06 C09 C10 C11 C12 C13 C14; do
  "$BIN" run $p "$tier" ${COV_ARGS:-} 2>&1 | grep -E "^(OK|VIOLATION|HARNESS)" | sed "s/^/$p: /"
done
"$TOOLS/llvm-profdata" merge -sparse "$OUT"/prof/*.profraw -o "$OUT/all.profdata" || exit 2
rm -rf "$OUT/prof"
"$TOOLS/llvm-cov" report "$BIN" -instr-profile="$OUT/all.profdata" $(find "$RITI_REPO/src" -name '*.rs') 2>/dev/null | tee "$OUT/report.txt" | awk '{printf "%-50s lines %6s missed %6s  %s\n", $1, $8, $9, $10}'
"$TOOLS/llvm-cov" show "$BIN" -instr-profile="$OUT/all.profdata" $(find "$RITI_REPO/src" -name '*.rs') -show-line-counts-or-regions 2>/dev/null > "$OUT/show.txt"
echo "uncovered lines: grep -n '|      0|' $OUT/show.txt"
