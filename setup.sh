#!/bin/bash
# Offline build of the simulator against /repo's current working tree.
set -eu
VERIF="$(cd "$(dirname "$0")" && pwd)"
export CARGO_NET_OFFLINE=true
mkdir -p "$VERIF/.cache" "$VERIF/evidence" "$VERIF/replays"
(cd "$VERIF/sim" && cargo build --release --offline 2>&1 | tail -n 3)
test -x "$VERIF/.cache/target/release/riti-sim"
"$VERIF/check_c19.sh" build-only
test -x "$VERIF/.cache/target-asan/x86_64-unknown-linux-gnu/release/riti-sim"
echo "setup ok"
