//! Configurations. A full `Config` can only be built from outside the crate through the
//! C setters, so that is what the harness uses (declared here, linked from the rlib).

use riti::config::Config;
use serde::{Deserialize, Serialize};
use std::ffi::CString;
use std::os::raw::c_char;

#[allow(improper_ctypes)]
extern "C" {
    pub fn riti_config_new() -> *mut Config;
    pub fn riti_config_free(ptr: *mut Config);
    pub fn riti_config_set_layout_file(ptr: *mut Config, path: *const c_char) -> bool;
    pub fn riti_config_set_database_dir(ptr: *mut Config, path: *const c_char) -> bool;
    pub fn riti_config_set_suggestion_include_english(ptr: *mut Config, option: bool);
    pub fn riti_config_set_phonetic_suggestion(ptr: *mut Config, option: bool);
    pub fn riti_config_set_fixed_suggestion(ptr: *mut Config, option: bool);
    pub fn riti_config_set_fixed_auto_vowel(ptr: *mut Config, option: bool);
    pub fn riti_config_set_fixed_auto_chandra(ptr: *mut Config, option: bool);
    pub fn riti_config_set_fixed_traditional_kar(ptr: *mut Config, option: bool);
    pub fn riti_config_set_fixed_old_reph(ptr: *mut Config, option: bool);
    pub fn riti_config_set_fixed_numpad(ptr: *mut Config, option: bool);
    pub fn riti_config_set_fixed_old_kar_order(ptr: *mut Config, option: bool);
    pub fn riti_config_set_ansi_encoding(ptr: *mut Config, option: bool);
    pub fn riti_config_set_smart_quote(ptr: *mut Config, option: bool);
}

#[derive(Clone, Copy, PartialEq, Eq, Debug, Serialize, Deserialize, Hash)]
pub enum LayoutKind {
    Phonetic,
    Probhat,
    Synthetic,
    /// A user's customised copy of Probhat.json in another directory: the same file name,
    /// a few keys swapped (written to .cache/layouts-alt/Probhat.json at start-up).
    ProbhatAlt,
}

#[derive(Clone, Copy, PartialEq, Eq, Debug, Serialize, Deserialize, Hash)]
pub enum DataKind {
    Full,
    Small,
    None,
    /// SMALL plus several hundred generated spellings for each of a few two-letter words
    /// ("ko", "mo", "bo", "to"): candidate lists of more than 256 entries, where the
    /// selection byte (u8) stops covering the list (usize).
    Big,
}

pub const ENGLISH: u16 = 1 << 0;
pub const PHON_SUG: u16 = 1 << 1;
pub const FIXED_SUG: u16 = 1 << 2;
pub const VOWEL: u16 = 1 << 3;
pub const CHANDRA: u16 = 1 << 4;
pub const KAR: u16 = 1 << 5;
pub const OLD_REPH: u16 = 1 << 6;
pub const NUMPAD: u16 = 1 << 7;
pub const KAR_ORDER: u16 = 1 << 8;
pub const ANSI: u16 = 1 << 9;
pub const SMART_QUOTE: u16 = 1 << 10;
pub const ALL_OPTS: u16 = (1 << 11) - 1;

pub const OPT_NAMES: [&str; 11] = [
    "english",
    "phonetic_suggestion",
    "fixed_suggestion",
    "auto_vowel",
    "auto_chandra",
    "traditional_kar",
    "old_reph",
    "numpad",
    "old_kar_order",
    "ansi",
    "smart_quote",
];

#[derive(Clone, Copy, PartialEq, Eq, Debug, Serialize, Deserialize, Hash)]
pub struct CfgSpec {
    pub layout: LayoutKind,
    pub data: DataKind,
    pub opts: u16,
}

impl CfgSpec {
    pub fn has(&self, bit: u16) -> bool {
        self.opts & bit != 0
    }
    pub fn with(mut self, bit: u16, on: bool) -> Self {
        if on {
            self.opts |= bit;
        } else {
            self.opts &= !bit;
        }
        self
    }
    pub fn is_phonetic(&self) -> bool {
        self.layout == LayoutKind::Phonetic
    }
    /// Does this configuration return list-style suggestions?
    pub fn lists(&self) -> bool {
        if self.is_phonetic() {
            self.has(PHON_SUG)
        } else {
            self.has(FIXED_SUG)
        }
    }
    pub fn describe(&self) -> String {
        let mut on = Vec::new();
        for (i, n) in OPT_NAMES.iter().enumerate() {
            if self.opts & (1 << i) != 0 {
                on.push(*n);
            }
        }
        format!("{:?}/{:?}/[{}]", self.layout, self.data, on.join(","))
    }
}

/// Where things live (resolved once at start-up).
#[derive(Clone, Debug)]
pub struct Paths {
    pub repo: String,
    pub verif: String,
    pub data_full: String,
    pub data_small: String,
    pub data_big: String,
    pub probhat: String,
    pub probhat_alt: String,
    pub synthetic: String,
    pub header: String,
}

impl Paths {
    pub fn resolve() -> Paths {
        let repo = std::env::var("RITI_REPO").unwrap_or_else(|_| "/repo".into());
        let verif = std::env::var("RITI_VERIF").unwrap_or_else(|_| "/verif".into());
        Paths {
            data_full: format!("{}/data", repo),
            data_small: format!("{}/.cache/data-small", verif),
            data_big: format!("{}/.cache/data-big", verif),
            probhat: format!("{}/data/Probhat.json", repo),
            probhat_alt: format!("{}/.cache/layouts-alt/Probhat.json", verif),
            synthetic: format!("{}/layouts/Synthetic.json", verif),
            header: format!("{}/include/riti.h", repo),
            repo,
            verif,
        }
    }
}

/// An owned `Config` built through the C setters.
pub struct CfgHandle {
    ptr: *mut Config,
}

impl CfgHandle {
    pub fn build(spec: &CfgSpec, paths: &Paths) -> Result<CfgHandle, String> {
        unsafe {
            let ptr = riti_config_new();
            let layout = match spec.layout {
                LayoutKind::Phonetic => "avro_phonetic".to_string(),
                LayoutKind::Probhat => paths.probhat.clone(),
                LayoutKind::ProbhatAlt => paths.probhat_alt.clone(),
                LayoutKind::Synthetic => paths.synthetic.clone(),
            };
            let c = CString::new(layout.clone()).unwrap();
            if !riti_config_set_layout_file(ptr, c.as_ptr()) {
                riti_config_free(ptr);
                return Err(format!("layout file rejected: {}", layout));
            }
            let dir = match spec.data {
                DataKind::Full => Some(paths.data_full.clone()),
                DataKind::Small => Some(paths.data_small.clone()),
                DataKind::Big => Some(paths.data_big.clone()),
                DataKind::None => None,
            };
            if let Some(dir) = dir {
                let c = CString::new(dir.clone()).unwrap();
                if !riti_config_set_database_dir(ptr, c.as_ptr()) {
                    riti_config_free(ptr);
                    return Err(format!("database dir rejected: {}", dir));
                }
            }
            riti_config_set_suggestion_include_english(ptr, spec.has(ENGLISH));
            riti_config_set_phonetic_suggestion(ptr, spec.has(PHON_SUG));
            riti_config_set_fixed_suggestion(ptr, spec.has(FIXED_SUG));
            riti_config_set_fixed_auto_vowel(ptr, spec.has(VOWEL));
            riti_config_set_fixed_auto_chandra(ptr, spec.has(CHANDRA));
            riti_config_set_fixed_traditional_kar(ptr, spec.has(KAR));
            riti_config_set_fixed_old_reph(ptr, spec.has(OLD_REPH));
            riti_config_set_fixed_numpad(ptr, spec.has(NUMPAD));
            riti_config_set_fixed_old_kar_order(ptr, spec.has(KAR_ORDER));
            riti_config_set_ansi_encoding(ptr, spec.has(ANSI));
            riti_config_set_smart_quote(ptr, spec.has(SMART_QUOTE));
            Ok(CfgHandle { ptr })
        }
    }

    pub fn get(&self) -> &Config {
        unsafe { &*self.ptr }
    }

    pub fn raw(&self) -> *mut Config {
        self.ptr
    }
}

impl Drop for CfgHandle {
    fn drop(&mut self) {
        unsafe { riti_config_free(self.ptr) }
    }
}
