//! Reference model of learned candidate choices (C09; reused per host by C10).
//!
//! `word -> (text as typed, acceptable preselected candidate(s))`, updated only by
//! acknowledged commits of a non-preselected index. Deliberately partial: anything the
//! front-end cannot know for sure *taints* the word, and tainted words are never judged.

use std::collections::{BTreeMap, BTreeSet};

#[derive(Clone, Debug, PartialEq)]
pub struct MEntry {
    /// The exact text that was in the composition when the choice was committed.
    pub text: String,
    /// The committed candidate text.
    pub cand: String,
    /// Planted by the harness in a store file (not committed through the API): the
    /// expectation is conditional on the value being offered at all.
    pub planted: bool,
}

#[derive(Clone, Debug, Default, PartialEq)]
pub struct LearnModel {
    pub m: BTreeMap<String, MEntry>,
    pub tainted: BTreeSet<String>,
}

/// Strips every non-letter from both ends. Returns `(pre, word, post)`; `None` when the
/// core is empty or is not letters only (outside the property's domain).
pub fn split_text(text: &str) -> Option<(&str, &str, &str)> {
    let start = text.find(|c: char| c.is_ascii_alphabetic())?;
    let end = text.rfind(|c: char| c.is_ascii_alphabetic())? + 1;
    let word = &text[start..end];
    if word.is_empty() || !word.chars().all(|c| c.is_ascii_alphabetic()) {
        return None;
    }
    Some((&text[..start], word, &text[end..]))
}

/// The harness's loose notion of "the word this text is about", used only to decide
/// which entry a commit supersedes: the letters-only core if there is one, otherwise
/// the whole text.
pub fn loose_word(text: &str) -> String {
    match split_text(text) {
        Some((_, w, _)) => w.to_string(),
        None => text.to_string(),
    }
}

pub enum Expect<'a> {
    /// The preselected candidate must be exactly this text.
    Exactly(&'a str),
    /// ... must be this text provided it is offered at all.
    IfOffered(&'a str),
    Nothing,
}

impl LearnModel {
    pub fn taint(&mut self, word: &str) {
        self.m.remove(word);
        self.tainted.insert(word.to_string());
    }

    pub fn learn(&mut self, text: &str, cand: &str) {
        let w = loose_word(text);
        self.tainted.remove(&w);
        self.m.insert(
            w,
            MEntry {
                text: text.to_string(),
                cand: cand.to_string(),
                planted: false,
            },
        );
    }

    /// L1: what must be preselected when the composition is exactly `text`.
    pub fn expect_for(&self, text: &str) -> Expect<'_> {
        let (_, word, _) = match split_text(text) {
            Some(x) => x,
            None => return Expect::Nothing,
        };
        if self.tainted.contains(word) {
            return Expect::Nothing;
        }
        match self.m.get(word) {
            Some(e) if e.text == text => {
                if e.planted {
                    Expect::IfOffered(&e.cand)
                } else {
                    Expect::Exactly(&e.cand)
                }
            }
            _ => Expect::Nothing,
        }
    }

    /// L2: for an unwrapped letters-only `word` without an entry of its own, the single
    /// learned base that splits it as base + known suffix. Returns
    /// `(base candidate, Bengali suffix)`.
    pub fn suffix_base<'a>(
        &'a self,
        word: &str,
        suffix: &'a BTreeMap<String, String>,
    ) -> Option<(&'a str, &'a str)> {
        if word.len() < 2
            || !word.chars().all(|c| c.is_ascii_alphabetic())
            || self.m.contains_key(word)
            || self.tainted.contains(word)
        {
            return None;
        }
        let mut found: Option<(&str, &str)> = None;
        let mut n = 0;
        for i in 1..word.len() {
            let (base, sfx) = word.split_at(i);
            if let Some(bn) = suffix.get(sfx) {
                if self.tainted.contains(base) {
                    return None;
                }
                if let Some(e) = self.m.get(base) {
                    n += 1;
                    if e.text != base {
                        return None; // learned under a wrap: not judged
                    }
                    found = Some((e.cand.as_str(), bn.as_str()));
                }
            }
        }
        if n == 1 {
            found
        } else {
            None
        }
    }

    /// Entries a store file with this content is known to hold (external planting).
    pub fn from_store_json(bytes: &[u8]) -> Option<LearnModel> {
        let v: serde_json::Value = serde_json::from_slice(bytes).ok()?;
        let obj = v.as_object()?;
        let mut lm = LearnModel::default();
        for (k, val) in obj {
            let s = val.as_str()?;
            if k.chars().all(|c| c.is_ascii_alphabetic()) && !k.is_empty() && !s.is_empty() {
                lm.m.insert(
                    k.clone(),
                    MEntry {
                        text: k.clone(),
                        cand: s.to_string(),
                        planted: true,
                    },
                );
            } else {
                lm.tainted.insert(loose_word(k));
            }
        }
        Some(lm)
    }
}

/// Does `bytes` parse as a JSON object whose values are all strings?
pub fn is_object_of_strings(bytes: &[u8]) -> bool {
    match serde_json::from_slice::<serde_json::Value>(bytes) {
        Ok(serde_json::Value::Object(o)) => o.values().all(|v| v.is_string()),
        _ => false,
    }
}

/// Parsed, order-independent view of a store file (for "nothing changed" checks).
pub fn parse_store(bytes: &[u8]) -> Option<BTreeMap<String, String>> {
    match serde_json::from_slice::<serde_json::Value>(bytes) {
        Ok(serde_json::Value::Object(o)) => {
            let mut m = BTreeMap::new();
            for (k, v) in o {
                m.insert(k, v.as_str()?.to_string());
            }
            Some(m)
        }
        _ => None,
    }
}

/// `base` joined to `suffix_bn` by the joining rules of the statement: a final vowel
/// (independent vowel or vowel sign) followed by an initial vowel sign gets YYA in
/// between, a final KHANDA TA becomes TA, a final ANUSVARA becomes NGA, otherwise plain
/// concatenation. `None` when the base ends in one of the rare vocalic letters on
/// which "vowel" can be read either way.
pub fn joined_form(base: &str, suffix_bn: &str) -> Option<String> {
    let last = base.chars().last()?;
    let first = suffix_bn.chars().next()?;
    let is_sign = |c: char| matches!(c, '\u{09BE}'..='\u{09C4}' | '\u{09C7}' | '\u{09C8}' | '\u{09CB}' | '\u{09CC}');
    let sure_vowel = |c: char| {
        matches!(c, '\u{0985}'..='\u{098B}' | '\u{098F}' | '\u{0990}' | '\u{0993}' | '\u{0994}')
            || matches!(c, '\u{09BE}'..='\u{09C3}' | '\u{09C7}' | '\u{09C8}' | '\u{09CB}' | '\u{09CC}')
    };
    let unclear = |c: char| matches!(c, '\u{098C}' | '\u{09E0}' | '\u{09E1}' | '\u{09C4}' | '\u{09E2}' | '\u{09E3}');
    if unclear(last) {
        return None;
    }
    let mut out = base.to_string();
    if sure_vowel(last) && is_sign(first) {
        out.push('\u{09DF}');
    } else if last == '\u{09CE}' {
        out.pop();
        out.push('\u{09A4}');
    } else if last == '\u{0982}' {
        out.pop();
        out.push('\u{0999}');
    }
    out.push_str(suffix_bn);
    Some(out)
}
