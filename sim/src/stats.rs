//! Per-run measurements, merged across workers in run-index order.

use std::collections::{BTreeMap, HashSet};

#[derive(Default, Clone)]
pub struct Stats {
    /// Named counters: ops by kind, faults that actually fired, probes, skipped ops, ...
    pub counters: BTreeMap<String, u64>,
    /// Distinct abstract states reached with a non-empty composition.
    pub states: HashSet<u64>,
    /// Distinct <actor, op-kind> sequences (one per run).
    pub interleavings: HashSet<u64>,
    /// Oracle evaluations (judged events / compared pairs).
    pub evaluations: u64,
    pub runs: u64,
    pub ops: u64,
    pub sim_time_ns: u64,
    pub max_call_ns: u64,
    pub max_call_alloc: u64,
}

impl Stats {
    pub fn bump(&mut self, name: &str) {
        self.add(name, 1);
    }

    pub fn add(&mut self, name: &str, n: u64) {
        if let Some(v) = self.counters.get_mut(name) {
            *v += n;
        } else {
            self.counters.insert(name.to_string(), n);
        }
    }

    pub fn get(&self, name: &str) -> u64 {
        self.counters.get(name).copied().unwrap_or(0)
    }

    pub fn merge(&mut self, other: &Stats) {
        for (k, v) in &other.counters {
            self.add(k, *v);
        }
        self.states.extend(other.states.iter().copied());
        self.interleavings.extend(other.interleavings.iter().copied());
        self.evaluations += other.evaluations;
        self.runs += other.runs;
        self.ops += other.ops;
        self.sim_time_ns += other.sim_time_ns;
        self.max_call_ns = self.max_call_ns.max(other.max_call_ns);
        self.max_call_alloc = self.max_call_alloc.max(other.max_call_alloc);
    }

    pub fn with_prefix(&self, prefix: &str) -> BTreeMap<String, u64> {
        self.counters
            .iter()
            .filter(|(k, _)| k.starts_with(prefix))
            .map(|(k, v)| (k[prefix.len()..].to_string(), *v))
            .collect()
    }
}
