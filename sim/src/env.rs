//! Read-only environment shared by all runs of a process: paths, the key table from the
//! published header, the layout files read independently of riti, word material for the
//! generators harvested from the data files, and the SMALL data profile cut from
//! /repo/data at start-up (so it always reflects /repo's current working tree).

use std::collections::{BTreeMap, HashMap};
use std::fs;

use crate::cfg::{LayoutKind, Paths};
use crate::keys::KeyTable;

pub struct LayoutInfo {
    /// (key code, altgr) -> value, for keys that have a non-empty value in the file.
    pub values: HashMap<(u16, bool), String>,
    /// keypad code -> value (only produced while the number-pad option is on).
    pub numpad: HashMap<u16, String>,
    /// value -> (key code, altgr), first key found for each value (non-keypad).
    pub by_value: BTreeMap<String, (u16, bool)>,
}

pub struct Env {
    pub paths: Paths,
    pub keys: KeyTable,
    pub probhat: LayoutInfo,
    pub probhat_alt: LayoutInfo,
    pub synthetic: LayoutInfo,
    /// suffix.json: latin key -> Bengali suffix.
    pub suffix: BTreeMap<String, String>,
    pub suffix_keys: Vec<String>,
    /// bundled autocorrect.json keys that consist of ASCII letters only.
    pub autocorrect_words: Vec<String>,
    /// all bundled autocorrect keys (some are emoticon-like).
    pub autocorrect_keys: Vec<String>,
    /// Latin back-spellings of words of the SMALL dictionary (so they hit in every
    /// data profile that has a dictionary).
    pub dict_spellings: Vec<String>,
    /// Back-spellings of dictionary words (of the SMALL cut) that end in KHANDA TA or ANUSVARA:
    /// where two of the three suffix-joining rules apply.
    pub joining_spellings: Vec<String>,
    /// Latin words with many candidates (long lists), measured lazily by generators.
    /// All emoticons / English emoji names / Bengali emoji names of the emojicon tables
    /// (extracted from the pinned crate's sources into sim/data/), common ones first.
    pub emoticons: Vec<&'static str>,
    pub emoji_names: Vec<&'static str>,
    pub bn_emoji_names: Vec<&'static str>,
}

fn layout_key_name(vc_name: &str) -> Option<(String, bool)> {
    // Returns (layout entry name without plane, is_numpad).
    let n = vc_name.strip_prefix("VC_")?;
    if let Some(kp) = n.strip_prefix("KP_") {
        let s = match kp {
            "DIVIDE" => "NumDivide".to_string(),
            "MULTIPLY" => "NumMultiply".to_string(),
            "SUBTRACT" => "NumSubtract".to_string(),
            "ADD" => "NumAdd".to_string(),
            "DECIMAL" => "NumDecimal".to_string(),
            d if d.len() == 1 && d.as_bytes()[0].is_ascii_digit() => format!("Num{}", d),
            _ => return None, // Enter, Equals: no layout entry
        };
        return Some((s, true));
    }
    if n.len() == 1 {
        let c = n.chars().next().unwrap();
        if c.is_ascii_digit() {
            return Some((n.to_string(), false));
        }
        return Some((c.to_ascii_lowercase().to_string(), false));
    }
    if let Some(l) = n.strip_suffix("_SHIFT") {
        if l.len() == 1 {
            return Some((l.to_string(), false));
        }
    }
    let s = match n {
        "UNDERSCORE" => "UnderScore".to_string(),
        _ => {
            // PAREN_LEFT -> ParenLeft
            let mut out = String::new();
            for part in n.split('_') {
                let mut cs = part.chars();
                if let Some(f) = cs.next() {
                    out.push(f.to_ascii_uppercase());
                    out.extend(cs.map(|c| c.to_ascii_lowercase()));
                }
            }
            out
        }
    };
    Some((s, false))
}

fn read_layout(path: &str, keys: &KeyTable) -> Result<LayoutInfo, String> {
    let text = fs::read_to_string(path).map_err(|e| format!("{}: {}", path, e))?;
    let v: serde_json::Value =
        serde_json::from_str(&text).map_err(|e| format!("{}: {}", path, e))?;
    let map = v["layout"]
        .as_object()
        .ok_or_else(|| format!("{}: no layout object", path))?;
    let mut values = HashMap::new();
    let mut numpad = HashMap::new();
    let mut by_value = BTreeMap::new();
    for k in &keys.keys {
        let (name, is_np) = match layout_key_name(&k.name) {
            Some(x) => x,
            None => continue,
        };
        if is_np {
            if let Some(s) = map.get(&name).and_then(|x| x.as_str()) {
                if !s.is_empty() {
                    numpad.insert(k.code, s.to_string());
                }
            }
        } else {
            for (altgr, plane) in [(false, "Normal"), (true, "AltGr")] {
                let entry = format!("Key_{}_{}", name, plane);
                if let Some(s) = map.get(&entry).and_then(|x| x.as_str()) {
                    if !s.is_empty() {
                        values.insert((k.code, altgr), s.to_string());
                        by_value.entry(s.to_string()).or_insert((k.code, altgr));
                    }
                }
            }
        }
    }
    Ok(LayoutInfo {
        values,
        numpad,
        by_value,
    })
}

/// A crude Bengali -> Avro-style Latin back-spelling; only has to be good enough for
/// the dictionary regex to find the word (or its neighbours) again.
fn back_spell(word: &str) -> Option<String> {
    let mut out = String::new();
    let chars: Vec<char> = word.chars().collect();
    let cons = |c: char| -> Option<&'static str> {
        Some(match c {
            'ক' => "k", 'খ' => "kh", 'গ' => "g", 'ঘ' => "gh", 'ঙ' => "Ng", 'চ' => "c", 'ছ' => "ch",
            'জ' => "j", 'ঝ' => "jh", 'ঞ' => "NG", 'ট' => "T", 'ঠ' => "Th", 'ড' => "D", 'ঢ' => "Dh",
            'ণ' => "N", 'ত' => "t", 'থ' => "th", 'দ' => "d", 'ধ' => "dh", 'ন' => "n", 'প' => "p",
            'ফ' => "f", 'ব' => "b", 'ভ' => "v", 'ম' => "m", 'য' => "z", 'র' => "r", 'ল' => "l",
            'শ' => "sh", 'ষ' => "S", 'স' => "s", 'হ' => "h", 'ড়' => "R", 'ঢ়' => "Rh", 'য়' => "y",
            'ৎ' => "t", 'ং' => "ng", 'ঃ' => ":", 'ঁ' => "",
            _ => return None,
        })
    };
    let kar = |c: char| -> Option<&'static str> {
        Some(match c {
            'া' => "a", 'ি' => "i", 'ী' => "i", 'ু' => "u", 'ূ' => "u", 'ৃ' => "ri", 'ে' => "e",
            'ৈ' => "oi", 'ো' => "o", 'ৌ' => "ou",
            _ => return None,
        })
    };
    let vowel = |c: char| -> Option<&'static str> {
        Some(match c {
            'অ' => "o", 'আ' => "a", 'ই' => "i", 'ঈ' => "i", 'উ' => "u", 'ঊ' => "u", 'ঋ' => "ri",
            'এ' => "e", 'ঐ' => "oi", 'ও' => "o", 'ঔ' => "ou",
            _ => return None,
        })
    };
    let mut i = 0;
    while i < chars.len() {
        let c = chars[i];
        if let Some(s) = cons(c) {
            out.push_str(s);
            // inherent vowel between two consonants
            if let Some(&n) = chars.get(i + 1) {
                if cons(n).is_some() && n != 'ং' && n != 'ঃ' && n != 'ঁ' && c != 'ং' && c != 'ঃ' && c != 'ঁ' {
                    out.push('o');
                }
            }
        } else if let Some(s) = kar(c) {
            out.push_str(s);
        } else if let Some(s) = vowel(c) {
            out.push_str(s);
        } else if c == '্' {
            // joins: drop the inherent vowel just added
            if out.ends_with('o') {
                out.pop();
            }
        } else {
            return None;
        }
        i += 1;
    }
    if out.is_empty() || out.contains(':') {
        None
    } else {
        Some(out)
    }
}

/// Cuts the SMALL data profile from /repo/data: every `STEP`-th word of every table,
/// the full suffix and auto-correct files. Written atomically; content is a pure
/// function of /repo/data, so concurrent processes may race harmlessly.
fn ensure_small_data(paths: &Paths) -> Result<Vec<String>, String> {
    const STEP: usize = 40;
    let src = format!("{}/dictionary.json", paths.data_full);
    let text = fs::read(&src).map_err(|e| format!("{}: {}", src, e))?;
    let dict: BTreeMap<String, Vec<String>> =
        serde_json::from_slice(&text).map_err(|e| format!("{}: {}", src, e))?;
    let mut small: BTreeMap<String, Vec<String>> = BTreeMap::new();
    let mut kept = Vec::new();
    for (table, words) in &dict {
        let mut v = Vec::new();
        for (i, w) in words.iter().enumerate() {
            if i % STEP == 0 || w.chars().count() <= 2 {
                v.push(w.clone());
                if i % STEP == 0 {
                    kept.push(w.clone());
                }
            }
        }
        small.insert(table.clone(), v);
    }
    fs::create_dir_all(&paths.data_small).map_err(|e| format!("{}: {}", paths.data_small, e))?;
    let put = |name: &str, bytes: &[u8]| -> Result<(), String> {
        let dst = format!("{}/{}", paths.data_small, name);
        if let Ok(existing) = fs::read(&dst) {
            if existing == bytes {
                return Ok(());
            }
        }
        let tmp = format!("{}/.{}.{}.tmp", paths.data_small, name, std::process::id());
        fs::write(&tmp, bytes).map_err(|e| format!("{}: {}", tmp, e))?;
        fs::rename(&tmp, &dst).map_err(|e| format!("{}: {}", dst, e))
    };
    put(
        "dictionary.json",
        serde_json::to_string(&small).unwrap().as_bytes(),
    )?;
    for name in ["suffix.json", "autocorrect.json"] {
        let p = format!("{}/{}", paths.data_full, name);
        let b = fs::read(&p).map_err(|e| format!("{}: {}", p, e))?;
        put(name, &b)?;
    }
    // The BIG profile: SMALL plus generated spellings that the Avro pattern of a two-letter
    // word accepts (optional folas and signs around the vowel), a few hundred per word.
    let mut big = small.clone();
    for (table, first) in [("k", '\u{0995}'), ("m", '\u{09AE}'), ("b", '\u{09AC}'), ("t", '\u{09A4}')] {
        let fola = ["", "\u{09CD}\u{09AF}", "\u{09CD}\u{09AC}", "\u{09CD}\u{09AE}"];
        let sign = ["", "\u{0983}", "\u{0981}"];
        let vowel = ["\u{09CB}", "\u{0993}", "\u{0985}", "\u{09DF}", "\u{09DF}\u{09CB}"];
        let mut words: Vec<String> = Vec::new();
        for f1 in fola {
            for s1 in sign {
                for v in vowel {
                    for f2 in fola {
                        for s2 in sign {
                            words.push(format!("{}{}{}{}{}{}", first, f1, s1, v, f2, s2));
                        }
                    }
                }
            }
        }
        words.sort();
        words.dedup();
        words.truncate(330);
        big.entry(table.to_string()).or_default().extend(words);
    }
    fs::create_dir_all(&paths.data_big).map_err(|e| format!("{}: {}", paths.data_big, e))?;
    let put_big = |name: &str, bytes: &[u8]| -> Result<(), String> {
        let dst = format!("{}/{}", paths.data_big, name);
        if let Ok(existing) = fs::read(&dst) {
            if existing == bytes {
                return Ok(());
            }
        }
        let tmp = format!("{}/.{}.{}.tmp", paths.data_big, name, std::process::id());
        fs::write(&tmp, bytes).map_err(|e| format!("{}: {}", tmp, e))?;
        fs::rename(&tmp, &dst).map_err(|e| format!("{}: {}", dst, e))
    };
    put_big("dictionary.json", serde_json::to_string(&big).unwrap().as_bytes())?;
    for name in ["suffix.json", "autocorrect.json"] {
        let p = format!("{}/{}", paths.data_full, name);
        let b = fs::read(&p).map_err(|e| format!("{}: {}", p, e))?;
        put_big(name, &b)?;
    }
    Ok(kept)
}

impl Env {
    pub fn load() -> Result<Env, String> {
        let paths = Paths::resolve();
        let keys = KeyTable::from_header(&paths.header)?;
        let probhat = read_layout(&paths.probhat, &keys)?;
        // the customised copy: same file name in another directory, two pairs of keys swapped
        {
            let text = fs::read_to_string(&paths.probhat).map_err(|e| format!("{}: {}", paths.probhat, e))?;
            let mut v: serde_json::Value = serde_json::from_str(&text).map_err(|e| format!("{}: {}", paths.probhat, e))?;
            if let Some(map) = v["layout"].as_object_mut() {
                for (a, b) in [("Key_h_Normal", "Key_k_Normal"), ("Key_a_Normal", "Key_s_Normal")] {
                    let (va, vb) = (map.get(a).cloned(), map.get(b).cloned());
                    if let (Some(va), Some(vb)) = (va, vb) {
                        map.insert(a.to_string(), vb);
                        map.insert(b.to_string(), va);
                    }
                }
            }
            let dir = std::path::Path::new(&paths.probhat_alt).parent().unwrap().to_path_buf();
            fs::create_dir_all(&dir).map_err(|e| format!("{}: {}", dir.display(), e))?;
            let bytes = serde_json::to_string(&v).unwrap();
            let same = fs::read_to_string(&paths.probhat_alt).map(|s| s == bytes).unwrap_or(false);
            if !same {
                let tmp = format!("{}.{}.tmp", paths.probhat_alt, std::process::id());
                fs::write(&tmp, &bytes).map_err(|e| format!("{}: {}", tmp, e))?;
                fs::rename(&tmp, &paths.probhat_alt).map_err(|e| format!("{}: {}", paths.probhat_alt, e))?;
            }
        }
        let probhat_alt = read_layout(&paths.probhat_alt, &keys)?;
        let synthetic = read_layout(&paths.synthetic, &keys)?;
        let kept = ensure_small_data(&paths)?;

        let sfx_path = format!("{}/suffix.json", paths.data_full);
        let suffix: BTreeMap<String, String> = serde_json::from_slice(
            &fs::read(&sfx_path).map_err(|e| format!("{}: {}", sfx_path, e))?,
        )
        .map_err(|e| format!("{}: {}", sfx_path, e))?;
        let suffix_keys: Vec<String> = suffix.keys().cloned().collect();

        let ac_path = format!("{}/autocorrect.json", paths.data_full);
        let ac: BTreeMap<String, String> = serde_json::from_slice(
            &fs::read(&ac_path).map_err(|e| format!("{}: {}", ac_path, e))?,
        )
        .map_err(|e| format!("{}: {}", ac_path, e))?;
        let autocorrect_keys: Vec<String> = ac.keys().cloned().collect();
        let autocorrect_words: Vec<String> = ac
            .keys()
            .filter(|k| !k.is_empty() && k.chars().all(|c| c.is_ascii_alphabetic()))
            .cloned()
            .collect();

        let mut dict_spellings: Vec<String> = kept
            .iter()
            .filter_map(|w| back_spell(w))
            .filter(|s| s.len() <= 12 && s.chars().all(|c| c.is_ascii_alphabetic()))
            .collect();
        dict_spellings.sort();
        dict_spellings.dedup();
        let mut joining_spellings: Vec<String> = kept
            .iter()
            .filter(|w| w.ends_with('\u{09CE}') || w.ends_with('\u{0982}'))
            .filter_map(|w| back_spell(w))
            .filter(|s| s.len() <= 12 && s.chars().all(|c| c.is_ascii_alphabetic()))
            .collect();
        joining_spellings.sort();
        joining_spellings.dedup();
        if dict_spellings.len() < 100 {
            return Err(format!(
                "only {} dictionary spellings harvested",
                dict_spellings.len()
            ));
        }

        Ok(Env {
            paths,
            keys,
            probhat,
            probhat_alt,
            synthetic,
            suffix,
            suffix_keys,
            autocorrect_words,
            autocorrect_keys,
            dict_spellings,
            joining_spellings,
            emoticons: {
                let mut v = vec![":)", ";)", ":(", ":D", ":P", "<3", ":'(", ":|", ":o", "B)", ":*", "-_-", ">:(", ":-)", "^_^", "</3", ":3", "o.O"];
                v.extend(include_str!("../data/emoticons.txt").lines().filter(|l| !l.is_empty()));
                v
            },
            emoji_names: {
                let mut v = vec!["smile", "heart", "fire", "number", "a", "help", "star", "sun", "moon", "cat", "dog", "tree", "book", "car", "rose", "ok", "b", "sos", "cool", "new"];
                v.extend(include_str!("../data/emoji_names.txt").lines().filter(|l| !l.is_empty()));
                v
            },
            bn_emoji_names: include_str!("../data/bn_emoji_names.txt").lines().filter(|l| !l.is_empty()).collect(),
        })
    }

    pub fn layout(&self, kind: LayoutKind) -> Option<&LayoutInfo> {
        match kind {
            LayoutKind::Phonetic => None,
            LayoutKind::Probhat => Some(&self.probhat),
            LayoutKind::ProbhatAlt => Some(&self.probhat_alt),
            LayoutKind::Synthetic => Some(&self.synthetic),
        }
    }
}
