//! C10 thorough tier: fault enumeration in the style of bounded black-box crash testing.
//!
//! For every seeded base history and every save the engine performs in it, the history
//! is re-executed once per byte offset k in [0, len] with the save torn at k by a crash
//! (followed by a restart and a continuation), once per failing-save kind (the live
//! context continues), and once per document of the malformed / wrong-shape /
//! empty-string corpus planted in either user file right after the save. Every variant
//! is an ordinary explicit plan, so a violation is confirmed, minimised and replayed
//! exactly like one found by sampling.

use std::sync::atomic::{AtomicBool, AtomicU64, Ordering};
use std::sync::{Arc, Mutex};
use std::time::{Duration, Instant};

use crate::disk::{ErrKind, FileId, WriteFault};
use crate::env::Env;
use crate::exec::{execute, End};
use crate::gen::{Gen, Tier};
use crate::plan::{FileSt, Idx, Mt, Op, Plan, Scenario};
use crate::runner::*;
use crate::stats::Stats;

pub fn corpus() -> Vec<(&'static str, FileSt)> {
    let t = |s: &str| FileSt::Text(s.to_string());
    vec![
        ("empty", t("")),
        ("malformed", t("{")),
        ("malformed", t("{\"a\":")),
        ("malformed", t("{\"a\":\"b\",}")),
        ("malformed", t("{\"a\":\"b\"")),
        ("malformed", t("nul")),
        ("malformed", t("\u{FEFF}{\"a\":\"b\"}")),
        ("malformed", t("{\"a\":\"b\"}{\"c\":\"d\"}")),
        ("malformed", t("{\"a\":\"b\"} x")),
        ("malformed", t("{'a':'b'}")),
        ("malformed", t("{\"a\":\"\\ud800\"}")),
        ("malformed", t("[[[[[[[[[[[[[[[[[[[[[[[[[[[[[[[[[[[[[[[[[[[[[[[[[[[[[[[[[[[[[[[[[[[[[[[[[[[[[[[[[[[[[[[[[[[[[[[[[[[[[[[[[[[[[[[[[[[[[[[[[[[[[[[[[[[[[[[[[[[[")),
        ("malformed", FileSt::Hex("7b2261223a22fffe227d".into())),
        ("malformed", FileSt::Hex("7b226100223a2262227d00".into())),
        ("malformed", t(" \n\t ")),
        ("wrong_shape", t("[]")),
        ("wrong_shape", t("null")),
        ("wrong_shape", t("\"s\"")),
        ("wrong_shape", t("42")),
        ("wrong_shape", t("true")),
        ("wrong_shape", t("{\"a\":1}")),
        ("wrong_shape", t("{\"a\":null}")),
        ("wrong_shape", t("{\"a\":[\"b\"]}")),
        ("wrong_shape", t("{\"a\":{\"b\":\"c\"}}")),
        ("wrong_shape", t("[{\"a\":\"b\"}]")),
        ("empty_strings", t("{\"\":\"x\"}")),
        ("empty_strings", t("{\"\":\"\"}")),
        ("empty_strings", t("{\"a\":\"\"}")),
    ]
}

struct Shared {
    stats: Stats,
    failure: Option<Failure>,
    known: Vec<(String, String)>,
    harness: Option<String>,
    variants: u64,
    bases: u64,
    saves: u64,
    prefixes_total: u64,
    ac_prefixes: u64,
    samples: Vec<(u64, Plan)>,
}

/// Runs the base once with a log to find which ops saved and how many bytes.
fn find_saves(env: &Env, base: &Plan) -> Option<Vec<(usize, usize)>> {
    let mut st = Stats::default();
    let mut w = crate::exec::World::new(env, base, &mut st, exec_opts(base.scenario, true));
    let o = w.run(base);
    if !matches!(o.end, End::Ok) {
        return None;
    }
    // log lines of commits carry "saves=[Complete]" when a save happened; the store
    // length is read back by re-running up to that op (cheap) -- simpler: parse the log.
    let mut saves = Vec::new();
    for line in &w.log {
        if let Some(rest) = line.strip_prefix('#') {
            if line.contains("saves=[Complete") {
                if let Some(idx) = rest.split_whitespace().next().and_then(|s| s.parse::<usize>().ok()) {
                    saves.push((idx, 0usize));
                }
            }
        }
    }
    Some(saves)
}

fn store_len_after(env: &Env, base: &Plan, upto: usize) -> usize {
    // Execute the prefix and look at the disk through a probe plan whose last op is the commit.
    let mut p = base.clone();
    p.ops.truncate(upto + 1);
    let mut st = Stats::default();
    let mut w = crate::exec::World::new(env, &p, &mut st, exec_opts(p.scenario, false));
    let _ = w.run(&p);
    w.store_len()
}

fn continuation(h: u8, words: &[String], env: &Env, seed: u64) -> Vec<Op> {
    // deterministic in (seed): retype every learned word (+ a suffixed form), learn one,
    // restart, retype it
    let mut g = Gen::new(env, seed, Tier::Thorough);
    let mut ops = Vec::new();
    for (i, w) in words.iter().take(2).enumerate() {
        g.type_and_refresh(&mut ops, h, w);
        ops.push(Op::Finish { h });
        let core: String = w.chars().filter(|c| c.is_ascii_alphabetic()).collect();
        if i == 0 && !core.is_empty() {
            let s = format!("{}{}", core, g.short_suffix());
            g.type_and_refresh(&mut ops, h, &s);
            ops.push(Op::Finish { h });
        }
    }
    if let Some(w) = words.first() {
        g.type_and_refresh(&mut ops, h, w);
        ops.push(Op::Commit { h, idx: Idx::Other(1) });
        ops.push(Op::Restart { h });
        g.type_and_refresh(&mut ops, h, w);
        ops.push(Op::Finish { h });
    }
    ops
}

fn variants_for(env: &Env, base: &Plan, words: &[String], j: usize, len: usize, seed: u64, with_corpus: bool) -> Vec<Plan> {
    let h = base.ops[j].host().unwrap_or(0);
    let cont = continuation(h, words, env, seed);
    let mut out = Vec::new();
    let mk = |pre: Vec<Op>, post: Vec<Op>| -> Plan {
        let mut ops: Vec<Op> = base.ops[..j].to_vec();
        ops.extend(pre);
        ops.push(base.ops[j].clone());
        ops.extend(post);
        ops.extend(cont.iter().cloned());
        Plan { scenario: Scenario::UserfileFaults, hash_seed: base.hash_seed, prelude: base.prelude.clone(), ops }
    };
    // every byte offset of the save, torn by a crash
    for k in 0..=len {
        out.push(mk(vec![Op::Arm { fault: WriteFault::CrashAfter(k as u32) }], vec![Op::Restart { h }]));
    }
    // a second host starts over the torn file while... (reader arrives after the tear)
    for k in [0usize, len / 3, len / 2, len.saturating_sub(1)] {
        out.push(mk(
            vec![Op::Arm { fault: WriteFault::CrashAfter(k as u32) }],
            vec![Op::Spawn { h: 1 - h.min(1), cfg: spawn_cfg(base) }, Op::Restart { h }],
        ));
    }
    // failing saves: the live context continues
    for f in [
        WriteFault::OpenFails(ErrKind::NotFound),
        WriteFault::OpenFails(ErrKind::Access),
        WriteFault::OpenFails(ErrKind::Rofs),
        WriteFault::FailsAfter(0, ErrKind::NoSpace),
        WriteFault::FailsAfter((len / 2) as u32, ErrKind::NoSpace),
        WriteFault::FailsAfter(len as u32, ErrKind::Io),
    ] {
        out.push(mk(vec![Op::Arm { fault: f }], vec![Op::Heal]));
        out.push(mk(vec![Op::Arm { fault: f }], vec![Op::Heal, Op::Restart { h }]));
    }
    // every corpus document in either file, then a restart / a reload
    for (_, doc) in corpus().into_iter().filter(|_| with_corpus) {
        out.push(mk(vec![], vec![Op::SetFile { file: FileId::Store, st: doc.clone(), mt: Mt::Now }, Op::Restart { h }]));
        out.push(mk(vec![], vec![Op::SetFile { file: FileId::Autocorrect, st: doc.clone(), mt: Mt::Now }, Op::Restart { h }]));
        out.push(mk(
            vec![],
            vec![Op::Clock { dt: 1_000_000_000 }, Op::SetFile { file: FileId::Autocorrect, st: doc.clone(), mt: Mt::Now }, Op::Update { h, cfg: spawn_cfg(base) }],
        ));
    }
    // right-shape documents with unusual values for a word that is typed afterwards; these
    // get a deeper continuation: the word is learned twice in a row (the second commit
    // moves the choice to another index, also to the unusual entry itself) and then typed
    // with a suffix
    let deep: Vec<Op> = {
        let mut g = Gen::new(env, seed ^ 0xDEE9, Tier::Thorough);
        let mut ops = Vec::new();
        if let Some(w) = words.first() {
            for r in [0u8, 0, 1] {
                g.type_and_refresh(&mut ops, h, w);
                ops.push(Op::Commit { h, idx: Idx::Other(r) });
            }
            let core: String = w.chars().filter(|c| c.is_ascii_alphabetic()).collect();
            if !core.is_empty() {
                for _ in 0..2 {
                    let sfx = g.short_suffix();
                    g.type_and_refresh(&mut ops, h, &format!("{}{}", core, sfx));
                    ops.push(Op::Finish { h });
                }
            }
        }
        ops
    };
    let mk_deep = |post: Vec<Op>| -> Plan {
        let mut ops: Vec<Op> = base.ops[..=j].to_vec();
        ops.extend(post);
        ops.extend(deep.iter().cloned());
        ops.extend(cont.iter().cloned());
        Plan { scenario: Scenario::UserfileFaults, hash_seed: base.hash_seed, prelude: base.prelude.clone(), ops }
    };
    if with_corpus {
        if let Some(core) = words.first().map(|w| w.chars().filter(|c| c.is_ascii_alphabetic()).collect::<String>()).filter(|c| !c.is_empty()) {
            for v in ["\u{09B8}\u{09BE}\u{09B0}", "ab\u{0995}\u{09BF}", "\u{1F600}", "caf\u{00E9}", "", "`", ":"] {
                let doc = FileSt::Text(serde_json::json!({ core.clone(): v }).to_string());
                out.push(mk_deep(vec![Op::SetFile { file: FileId::Autocorrect, st: doc.clone(), mt: Mt::Now }, Op::Restart { h }]));
                out.push(mk_deep(vec![Op::SetFile { file: FileId::Store, st: doc.clone(), mt: Mt::Now }, Op::Restart { h }]));
                out.push(mk_deep(vec![Op::Clock { dt: 1_000_000_000 }, Op::SetFile { file: FileId::Autocorrect, st: doc, mt: Mt::Now }, Op::Update { h, cfg: spawn_cfg(base) }]));
            }
        }
    }
    // the user's auto-correct list is written by its editor, not by the engine, and an
    // interrupted save of it leaves any byte prefix behind (also one that ends inside a
    // multi-byte character): every prefix of a two-entry document whose first entry is for
    // the word typed afterwards, read at start-up and by a reload on the live context
    if with_corpus {
        if let Some(core) = words.first().map(|w| w.chars().filter(|c| c.is_ascii_alphabetic()).collect::<String>()).filter(|c| !c.is_empty()) {
            let doc = format!("{{{}:{},\"zq\":\"b`\"}}", serde_json::json!(core), serde_json::json!("\u{09B8}\u{09BE}r"));
            let bytes = doc.as_bytes();
            for k in 0..=bytes.len() {
                let cut: String = bytes[..k].iter().map(|b| format!("{:02x}", b)).collect();
                out.push(mk(vec![], vec![Op::SetFile { file: FileId::Autocorrect, st: FileSt::Hex(cut.clone()), mt: Mt::Now }, Op::Restart { h }]));
                out.push(mk(
                    vec![],
                    vec![Op::Clock { dt: 1_000_000_000 }, Op::SetFile { file: FileId::Autocorrect, st: FileSt::Hex(cut), mt: Mt::Now }, Op::Update { h, cfg: spawn_cfg(base) }],
                ));
            }
        }
    }
    // directory gone / read-only around the save
    out.push(mk(vec![Op::SetDir { st: crate::disk::DirState::Missing }], vec![Op::Restart { h }, Op::Heal]));
    out.push(mk(vec![Op::SetDir { st: crate::disk::DirState::ReadOnly }], vec![Op::Restart { h }, Op::Heal]));
    // lost write
    out.push(mk(vec![], vec![Op::PowerLoss, Op::Restart { h }]));
    out
}

fn spawn_cfg(base: &Plan) -> crate::cfg::CfgSpec {
    for op in &base.ops {
        if let Op::Spawn { cfg, .. } = op {
            return *cfg;
        }
    }
    unreachable!("base plan without a spawn")
}

pub fn run_enumeration(env: &Arc<Env>, known: &Arc<KnownFindings>, cfg: &BatchCfg, prior: Option<BatchResult>, resampled: (u64, u64)) -> i32 {
    let t0 = Instant::now();
    let shared = Arc::new(Mutex::new(Shared {
        stats: Stats::default(),
        failure: None,
        known: Vec::new(),
        harness: None,
        variants: 0,
        bases: 0,
        saves: 0,
        prefixes_total: 0,
        ac_prefixes: 0,
        samples: Vec::new(),
    }));
    let stop = Arc::new(AtomicBool::new(false));
    let capped = Arc::new(AtomicBool::new(false));
    let workers = cfg.workers.max(1);
    let verif_seed = cfg.verif_seed;
    let all_bases: Vec<u64> = (cfg.first_index..cfg.first_index + cfg.runs).collect();
    // Bases are processed in batches: first every base of the batch is expanded into its
    // variants (parallel over bases), then the variants are executed (parallel over
    // variants), so that the work is spread evenly whatever the size of a base.
    for batch in all_bases.chunks(4 * workers) {
        if stop.load(Ordering::SeqCst) {
            break;
        }
        if t0.elapsed() > cfg.wall_cap {
            capped.store(true, Ordering::SeqCst);
            break;
        }
        let work: Mutex<Vec<(u64, Plan)>> = Mutex::new(Vec::new());
        let next_base = AtomicU64::new(0);
        std::thread::scope(|sc| {
            for _ in 0..workers {
                sc.spawn(|| loop {
                    let k = next_base.fetch_add(1, Ordering::SeqCst) as usize;
                    if k >= batch.len() {
                        break;
                    }
                    let i = batch[k];
                    let seed = run_seed(verif_seed, Scenario::UserfileFaults, 1_000_000 + i);
                    let (base, words) = Gen::new(env, seed, Tier::Thorough).enum_base();
                    let saves = match find_saves(env, &base) {
                        Some(s) => s,
                        None => continue,
                    };
                    let mut mine: Vec<(u64, Plan)> = Vec::new();
                    let mut n_pref = 0u64;
                    for (si, (j, _)) in saves.iter().enumerate() {
                        let len = store_len_after(env, &base, *j);
                        n_pref += len as u64 + 1;
                        for p in variants_for(env, &base, &words, *j, len, seed ^ (si as u64 + 1), si + 1 == saves.len()) {
                            mine.push((i, p));
                        }
                    }
                    // byte prefixes of the auto-correct document: one Restart variant per prefix
                    let n_ac = mine
                        .iter()
                        .filter(|(_, p)| {
                            p.ops.windows(2).any(|w| {
                                matches!(&w[0], Op::SetFile { file: FileId::Autocorrect, st: FileSt::Hex(_), .. }) && matches!(&w[1], Op::Restart { .. })
                            })
                        })
                        .count() as u64;
                    let n_ac = n_ac.saturating_sub(2 * (saves.len().min(1) as u64)); // the two hex documents of the corpus
                    let mut s = shared.lock().unwrap();
                    s.ac_prefixes += n_ac;
                    s.bases += 1;
                    s.saves += saves.len() as u64;
                    s.prefixes_total += n_pref;
                    if s.samples.len() < 2 {
                        s.samples.push((i, base.clone()));
                    }
                    drop(s);
                    work.lock().unwrap().extend(mine);
                });
            }
        });
        let mut work = work.into_inner().unwrap();
        work.sort_by_key(|(i, _)| *i);
        let next_var = AtomicU64::new(0);
        let work_ref = &work;
        std::thread::scope(|sc| {
            for w in 0..workers {
                let stop = stop.clone();
                let capped = capped.clone();
                let shared = shared.clone();
                let known = known.clone();
                let next_var = &next_var;
                sc.spawn(move || {
                    crate::watch::set_worker(w);
                    let mut local = Stats::default();
                    let mut n_var = 0u64;
                    loop {
                        if stop.load(Ordering::SeqCst) {
                            break;
                        }
                        if t0.elapsed() > cfg.wall_cap + Duration::from_secs(120) {
                            capped.store(true, Ordering::SeqCst);
                            break;
                        }
                        let k = next_var.fetch_add(1, Ordering::SeqCst) as usize;
                        if k >= work_ref.len() {
                            break;
                        }
                        let (i, p) = &work_ref[k];
                        n_var += 1;
                        let (o, _) = execute(env, p, &mut local, exec_opts(p.scenario, false));
                        match o.end {
                            End::Ok | End::Inconclusive(_) => {}
                            End::Harness(e) => {
                                shared.lock().unwrap().harness = Some(e);
                                stop.store(true, Ordering::SeqCst);
                            }
                            End::Violation(v) => {
                                if let Some(kf) = known.matching("C10", &v) {
                                    shared.lock().unwrap().known.push((kf.what.clone(), v.detail.clone()));
                                } else {
                                    let mut s = shared.lock().unwrap();
                                    if s.failure.as_ref().map(|f| *i < f.index).unwrap_or(true) {
                                        s.failure = Some(Failure { index: *i, plan: p.clone(), violation: v });
                                    }
                                    stop.store(true, Ordering::SeqCst);
                                }
                            }
                        }
                    }
                    let mut s = shared.lock().unwrap();
                    s.variants += n_var;
                    s.stats.merge(&local);
                });
            }
        });
    }
    let mut s = shared.lock().unwrap();
    if let Some(e) = &s.harness {
        println!("HARNESS-ERROR: {}", e);
        return 2;
    }
    let mut seen = std::collections::BTreeMap::new();
    for (what, detail) in &s.known {
        let e = seen.entry(what.clone()).or_insert((0u64, detail.clone()));
        e.0 += 1;
    }
    for (what, (n, detail)) in &seen {
        println!("KNOWN-FINDING: property=C10 {} (hit {} times; e.g. {})", what, n, detail);
    }
    let verif = env.paths.verif.clone();
    let mut exit = 0;
    let mut violations = 0;
    if let Some(f) = s.failure.take() {
        let m = minimise(env, &f.plan, &f.violation, 3000, Duration::from_secs(120));
        let path = match write_replay(env, &verif, cfg, f.index, f.plan.ops.len(), &m) {
            Ok(p) => p,
            Err(e) => {
                println!("HARNESS-ERROR: {}", e);
                return 2;
            }
        };
        println!("violated clause: {}", m.violation.clause);
        println!("detail: {}", m.violation.detail);
        for l in describe_plan(env, &m.plan) {
            println!("    {}", l);
        }
        println!("VIOLATION property=C10 replay={}", path);
        violations = 1;
        exit = 1;
    }
    let mut stats = std::mem::take(&mut s.stats);
    let mut samples = std::mem::take(&mut s.samples);
    let mut sampled_runs = 0;
    let mut sampled_wall = 0.0;
    let mut sampled_evaluations = 0;
    if let Some(p) = &prior {
        sampled_runs = p.completed_runs;
        sampled_wall = p.wall.as_secs_f64();
        sampled_evaluations = p.stats.evaluations;
        stats.merge(&p.stats);
        samples.extend(p.samples.iter().cloned());
    }
    let res = BatchResult {
        stats,
        failure: None,
        known: Default::default(),
        harness_error: None,
        digests: vec![],
        samples,
        completed_runs: s.variants + sampled_runs,
        wall: t0.elapsed() + std::time::Duration::from_secs_f64(sampled_wall),
        capped: capped.load(Ordering::SeqCst),
    };
    let ex = EvidenceExtra {
        level: "fault_enumeration",
        rule: "two parts. (1) seeded sampling: 1-2 hosts, the editor, the fault injector and the clock, faults armed right before the commit / restart / spawn / update they should bite, swarm-selected fault kinds. (2) enumeration: for each seeded fault-free base history and each save the engine performs in it: one variant per byte offset k in [0,len] of that save torn by a crash (+ restart), torn + a second host arriving, six failing-save kinds (live context continues, with and without restart), every document of the malformed / wrong-shape / empty-string corpus planted in either user file (+ restart or reload), every byte prefix of a two-entry user auto-correct document for the word typed next (+ restart, and + reload on the live context), directory missing / read-only, power loss before flush; each followed by a continuation that retypes every learned word bare and suffixed, learns again, restarts and retypes. A case is one variant; states are distinct by the hash under distinct_states_measure".to_string(),
        assumptions: vec![
            "exhaustive over the byte prefixes of the stores written in the base histories of this run and of one auto-correct document per base history, not over all documents".into(),
            "SimDisk models std::fs::write as open(O_TRUNC) + write_all".into(),
            "mid-read EIO after a successful open is not injected".into(),
        ],
        extra: serde_json::json!({
            "base_histories": s.bases,
            "saves_enumerated": s.saves,
            "byte_prefixes_enumerated": s.prefixes_total,
            "autocorrect_byte_prefixes_enumerated": s.ac_prefixes,
            "variants_executed": s.variants,
            "sampled_runs": sampled_runs,
            "sampled_evaluations": sampled_evaluations,
            "corpus_documents": corpus().len(),
            "exhaustive_over_prefixes_of_written_stores": true,
        }),
    };
    match write_evidence(env, &verif, cfg, &res, violations, resampled, &ex) {
        Ok(p) => println!(
            "C10: sampled runs={} + enumeration: bases={} saves={} prefixes={} variants={} wall={:.1}s evidence={}",
            sampled_runs, s.bases, s.saves, s.prefixes_total, s.variants, res.wall.as_secs_f64(), p
        ),
        Err(e) => {
            println!("HARNESS-ERROR: {}", e);
            return 2;
        }
    }
    if exit == 0 {
        println!("OK property=C10 held on everything enumerated");
    }
    exit
}
