//! Seams for the two sources of hash randomness riti inherits from its dependencies.
//!
//! 1. OS entropy: `getrandom 0.3` is built with `--cfg getrandom_backend="custom"`, so it
//!    calls the symbol defined here. ahash draws its process-wide fixed keys from it
//!    exactly once; the answer is therefore a constant stream (a function of nothing),
//!    otherwise the value would depend on which worker thread asked first.
//! 2. ahash's per-map key: `ahash::random_state::set_random_source` (public API, once per
//!    process). The source reads a thread-local splitmix stream that the runner re-seeds
//!    at the start of every simulated run, so each run sees its own reproducible
//!    iteration orders and different runs see different ones.

use crate::prng::splitmix64;
use std::cell::Cell;

thread_local! {
    static HASH_STREAM: Cell<u64> = const { Cell::new(0x1234_5678_9ABC_DEF0) };
    static HASH_DRAWS: Cell<u64> = const { Cell::new(0) };
}

struct PerRunSource;

impl ahash::random_state::RandomSource for PerRunSource {
    fn gen_hasher_seed(&self) -> usize {
        HASH_DRAWS.with(|d| d.set(d.get() + 1));
        HASH_STREAM.with(|s| {
            let mut st = s.get();
            let v = splitmix64(&mut st);
            s.set(st);
            v as usize
        })
    }
}

/// Must be called once, before any riti object is created.
pub fn install() {
    // Err means a source was already set, which can only be a harness bug.
    if ahash::random_state::set_random_source(PerRunSource).is_err() {
        eprintln!("HARNESS-ERROR: ahash random source already set");
        std::process::exit(2);
    }
}

/// Re-seeds the calling thread's hash-key stream (start of a run / of a re-execution).
pub fn reseed(seed: u64) {
    HASH_STREAM.with(|s| s.set(seed ^ 0xA5A5_5A5A_C3C3_3C3C));
}

pub fn draws() -> u64 {
    HASH_DRAWS.with(|d| d.get())
}

#[no_mangle]
unsafe extern "Rust" fn __getrandom_v03_custom(
    dest: *mut u8,
    len: usize,
) -> Result<(), getrandom::Error> {
    let mut st = 0x0BAD_5EED_2026_0926u64;
    let mut i = 0;
    while i < len {
        let v = splitmix64(&mut st).to_le_bytes();
        let n = (len - i).min(8);
        std::ptr::copy_nonoverlapping(v.as_ptr(), dest.add(i), n);
        i += n;
    }
    Ok(())
}
