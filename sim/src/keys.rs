//! The key alphabet, taken from the published header `include/riti.h` (the properties
//! quantify over what the header publishes, not over `src/keycodes.rs`), and the
//! front-end's own idea of which character each key name denotes.

use std::collections::HashMap;

#[derive(Clone, Debug)]
pub struct KeyDef {
    pub name: String,
    pub code: u16,
    /// The ASCII character the key's *name* denotes; `None` for the two keypad keys
    /// that have no character (Enter, Equals is given '=').
    pub ch: Option<char>,
    pub keypad: bool,
}

#[derive(Clone, Debug)]
pub struct KeyTable {
    pub keys: Vec<KeyDef>,
    pub by_code: HashMap<u16, usize>,
    pub by_char: HashMap<char, u16>, // non-keypad key for a character
}

fn name_to_char(name: &str) -> Option<char> {
    let n = name.strip_prefix("VC_")?;
    if let Some(kp) = n.strip_prefix("KP_") {
        return match kp {
            "DIVIDE" => Some('/'),
            "MULTIPLY" => Some('*'),
            "SUBTRACT" => Some('-'),
            "ADD" => Some('+'),
            "DECIMAL" => Some('.'),
            "EQUALS" => Some('='),
            "ENTER" => None,
            d if d.len() == 1 && d.as_bytes()[0].is_ascii_digit() => d.chars().next(),
            _ => None,
        };
    }
    if n.len() == 1 {
        let c = n.chars().next().unwrap();
        if c.is_ascii_digit() {
            return Some(c);
        }
        if c.is_ascii_uppercase() {
            return Some(c.to_ascii_lowercase());
        }
    }
    if let Some(l) = n.strip_suffix("_SHIFT") {
        if l.len() == 1 && l.as_bytes()[0].is_ascii_uppercase() {
            return l.chars().next();
        }
    }
    Some(match n {
        "GRAVE" => '`',
        "TILDE" => '~',
        "EXCLAIM" => '!',
        "AT" => '@',
        "HASH" => '#',
        "DOLLAR" => '$',
        "PERCENT" => '%',
        "CIRCUM" => '^',
        "AMPERSAND" => '&',
        "ASTERISK" => '*',
        "PAREN_LEFT" => '(',
        "PAREN_RIGHT" => ')',
        "UNDERSCORE" => '_',
        "PLUS" => '+',
        "MINUS" => '-',
        "EQUALS" => '=',
        "BRACKET_LEFT" => '[',
        "BRACKET_RIGHT" => ']',
        "BRACE_LEFT" => '{',
        "BRACE_RIGHT" => '}',
        "BACK_SLASH" => '\\',
        "BAR" => '|',
        "SEMICOLON" => ';',
        "COLON" => ':',
        "APOSTROPHE" => '\'',
        "QUOTE" => '"',
        "COMMA" => ',',
        "LESS" => '<',
        "PERIOD" => '.',
        "GREATER" => '>',
        "SLASH" => '/',
        "QUESTION" => '?',
        _ => return None,
    })
}

impl KeyTable {
    pub fn from_header(path: &str) -> Result<KeyTable, String> {
        let text = std::fs::read_to_string(path).map_err(|e| format!("{}: {}", path, e))?;
        let mut keys = Vec::new();
        for line in text.lines() {
            let mut it = line.split_whitespace();
            if it.next() != Some("#define") {
                continue;
            }
            let name = match it.next() {
                Some(n) if n.starts_with("VC_") => n,
                _ => continue,
            };
            let val = match it.next() {
                Some(v) => v,
                None => continue,
            };
            let code: u32 = if let Some(h) = val.strip_prefix("0x") {
                u32::from_str_radix(h, 16).map_err(|e| format!("{}: {}", name, e))?
            } else {
                val.parse().map_err(|e| format!("{}: {}", name, e))?
            };
            if code > 0xFFFF {
                return Err(format!("{}: value {} does not fit u16", name, code));
            }
            let ch = name_to_char(name);
            if ch.is_none() && name != "VC_KP_ENTER" {
                return Err(format!("header key {} is unknown to the harness", name));
            }
            keys.push(KeyDef {
                name: name.to_string(),
                code: code as u16,
                ch,
                keypad: name.starts_with("VC_KP_"),
            });
        }
        if keys.len() < 100 {
            return Err(format!("only {} VC_ codes found in {}", keys.len(), path));
        }
        let mut by_code = HashMap::new();
        let mut by_char = HashMap::new();
        for (i, k) in keys.iter().enumerate() {
            by_code.insert(k.code, i);
            if let (Some(c), false) = (k.ch, k.keypad) {
                by_char.insert(c, k.code);
            }
        }
        Ok(KeyTable {
            keys,
            by_code,
            by_char,
        })
    }

    pub fn code_for(&self, c: char) -> Option<u16> {
        self.by_char.get(&c).copied()
    }

    pub fn def(&self, code: u16) -> Option<&KeyDef> {
        self.by_code.get(&code).map(|&i| &self.keys[i])
    }

    pub fn char_of(&self, code: u16) -> Option<char> {
        self.def(code).and_then(|d| d.ch)
    }

    /// Key codes for a typed ASCII string (characters without a key are skipped).
    pub fn codes_for(&self, text: &str) -> Vec<u16> {
        text.chars().filter_map(|c| self.code_for(c)).collect()
    }
}

/// The 13 keys on which the phonetic method returns the caller's selection byte
/// instead of its own computed preselection.
pub fn is_selection_preserving(c: char) -> bool {
    matches!(
        c,
        '.' | '?' | '!' | ',' | ':' | ';' | '-' | '_' | ')' | '}' | ']' | '\'' | '"'
    )
}
