//! The only source of choices in the simulator: splitmix64 for seed derivation and
//! xoshiro256** for the per-run stream. No OS entropy, no clock.

#[inline]
pub fn splitmix64(state: &mut u64) -> u64 {
    *state = state.wrapping_add(0x9E37_79B9_7F4A_7C15);
    let mut z = *state;
    z = (z ^ (z >> 30)).wrapping_mul(0xBF58_476D_1CE4_E5B9);
    z = (z ^ (z >> 27)).wrapping_mul(0x94D0_49BB_1331_11EB);
    z ^ (z >> 31)
}

/// Mixes several integers into one seed (order-sensitive).
pub fn mix(parts: &[u64]) -> u64 {
    let mut s = 0x5EED_0F41_7111_2026u64;
    let mut out = 0u64;
    for &p in parts {
        s ^= p.wrapping_mul(0xD6E8_FEB8_6659_FD93);
        out = splitmix64(&mut s) ^ out.rotate_left(17);
    }
    out
}

/// FNV-1a over bytes; used for digests and distinct-state fingerprints.
pub fn fnv(bytes: &[u8]) -> u64 {
    let mut h = 0xcbf2_9ce4_8422_2325u64;
    for &b in bytes {
        h ^= b as u64;
        h = h.wrapping_mul(0x0000_0100_0000_01B3);
    }
    h
}

pub fn fnv_add(h: u64, bytes: &[u8]) -> u64 {
    let mut h = h;
    for &b in bytes {
        h ^= b as u64;
        h = h.wrapping_mul(0x0000_0100_0000_01B3);
    }
    h
}

#[derive(Clone, Debug)]
pub struct Rng {
    s: [u64; 4],
}

impl Rng {
    pub fn new(seed: u64) -> Self {
        let mut sm = seed;
        let s = [
            splitmix64(&mut sm),
            splitmix64(&mut sm),
            splitmix64(&mut sm),
            splitmix64(&mut sm),
        ];
        Rng { s }
    }

    #[inline]
    pub fn next_u64(&mut self) -> u64 {
        let result = self.s[1].wrapping_mul(5).rotate_left(7).wrapping_mul(9);
        let t = self.s[1] << 17;
        self.s[2] ^= self.s[0];
        self.s[3] ^= self.s[1];
        self.s[1] ^= self.s[2];
        self.s[0] ^= self.s[3];
        self.s[2] ^= t;
        self.s[3] = self.s[3].rotate_left(45);
        result
    }

    /// Uniform in `0..n` (n > 0).
    #[inline]
    pub fn below(&mut self, n: u64) -> u64 {
        debug_assert!(n > 0);
        // Multiply-shift; bias is negligible for the small n used here.
        ((self.next_u64() as u128 * n as u128) >> 64) as u64
    }

    #[inline]
    pub fn usize(&mut self, n: usize) -> usize {
        self.below(n as u64) as usize
    }

    /// Uniform in `lo..=hi`.
    #[inline]
    pub fn range(&mut self, lo: u64, hi: u64) -> u64 {
        lo + self.below(hi - lo + 1)
    }

    /// True with probability `percent` / 100.
    #[inline]
    pub fn pct(&mut self, percent: u64) -> bool {
        self.below(100) < percent
    }

    #[inline]
    pub fn coin(&mut self) -> bool {
        self.next_u64() & 1 == 1
    }

    pub fn pick<'a, T>(&mut self, items: &'a [T]) -> &'a T {
        &items[self.usize(items.len())]
    }

    /// Index chosen with the given integer weights.
    pub fn weighted(&mut self, weights: &[u32]) -> usize {
        let total: u64 = weights.iter().map(|&w| w as u64).sum();
        let mut r = self.below(total.max(1));
        for (i, &w) in weights.iter().enumerate() {
            if r < w as u64 {
                return i;
            }
            r -= w as u64;
        }
        weights.len() - 1
    }

    /// An independent stream derived from this one's seed material and a tag
    /// (does not advance `self`).
    pub fn derive(&self, tag: u64) -> Rng {
        Rng::new(mix(&[self.s[0], self.s[1], self.s[2], self.s[3], tag]))
    }
}
