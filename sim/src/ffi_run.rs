//! Parent / child orchestration for C19 (see ffi.rs).

use serde::{Deserialize, Serialize};
use serde_json::json;
use std::collections::{BTreeMap, HashSet};
use std::process::{Command, Stdio};
use std::sync::atomic::{AtomicU64, Ordering};
use std::sync::{Arc, Mutex};
use std::time::Instant;

use crate::env::Env;
use crate::ffi::*;
use crate::prng::mix;

const EXIT_ORACLE: i32 = 3;
const EXIT_ASAN: i32 = 66;
const EXIT_LSAN: i32 = 67;

#[derive(Serialize, Deserialize)]
struct Job {
    plans: Vec<(u64, FPlan)>,
}

#[derive(Serialize, Deserialize, Default)]
struct ChildOut {
    violation: Option<(u64, String, String, usize)>,
    lifecycles: u64,
    calls: u64,
    evaluations: u64,
    states: Vec<u64>,
    counters: BTreeMap<String, u64>,
    balance_checked: u64,
}

fn die(msg: &str) -> ! {
    println!("HARNESS-ERROR: {}", msg);
    std::process::exit(2);
}

pub fn lifecycle_seed(verif_seed: u64, index: u64) -> u64 {
    mix(&[verif_seed, 19, index])
}

/// `riti-sim ffi-child <job.json> <crumb> <out.json>` (the sanitizer-instrumented build).
pub fn cmd_child(args: &[String]) -> i32 {
    let job_path = args.get(0).cloned().unwrap_or_else(|| die("ffi-child: job file missing"));
    let crumb = args.get(1).cloned().unwrap_or_else(|| die("ffi-child: crumb file missing"));
    let out_path = args.get(2).cloned().unwrap_or_else(|| die("ffi-child: out file missing"));
    let job: Job = serde_json::from_slice(&std::fs::read(&job_path).unwrap_or_else(|e| die(&format!("{}: {}", job_path, e))))
        .unwrap_or_else(|e| die(&format!("{}: {}", job_path, e)));
    let env = Env::load().unwrap_or_else(|e| die(&e));
    let mut st = FStats::new();
    let mut out = ChildOut::default();
    // warm-up: lazily initialised tables of the dependencies are created once
    if let Some((_, p)) = job.plans.first() {
        let mut w = FStats::new();
        w.light = true;
        let _ = run_lifecycle(&env, p, &mut w);
    }
    for (index, plan) in &job.plans {
        // plan-before-execute: the parent learns from the breadcrumb which plan killed us
        let _ = std::fs::write(&crumb, index.to_string());
        let r = run_lifecycle(&env, plan, &mut st);
        out.lifecycles += 1;
        if let Err(v) = r {
            out.violation = Some((*index, v.clause, v.detail, v.op_index));
            break;
        }
        // (b) allocation balance: the same life cycle again, with nothing recorded by
        // the harness; every allocation made during it must have been freed at its end
        let mut light = FStats::new();
        light.light = true;
        let before = live();
        let r2 = run_lifecycle(&env, plan, &mut light);
        let ok = r2.is_ok();
        drop(r2);
        let after = live();
        out.balance_checked += 1;
        st.evaluations += 1;
        if ok && after != before {
            out.violation = Some((
                *index,
                "allocation-balance".into(),
                format!(
                    "life cycle ended with {} live allocations / {} bytes more than it started with",
                    after.0 - before.0,
                    after.1 - before.1
                ),
                plan.ops.len(),
            ));
            break;
        }
    }
    out.calls = st.calls;
    out.evaluations = st.evaluations;
    out.states = st.states.iter().copied().collect();
    out.counters = st.counters.clone();
    let failed = out.violation.is_some();
    std::fs::write(&out_path, serde_json::to_vec(&out).unwrap()).unwrap_or_else(|e| die(&format!("{}: {}", out_path, e)));
    if failed {
        EXIT_ORACLE
    } else {
        0
    }
}

pub struct ChildResult {
    pub out: Option<ChildOut2>,
    pub exit: Option<i32>,
    pub crumb: Option<u64>,
    pub stderr_tail: String,
    pub timed_out: bool,
}

pub struct ChildOut2 {
    pub violation: Option<(u64, String, String, usize)>,
    pub lifecycles: u64,
    pub calls: u64,
    pub evaluations: u64,
    pub states: Vec<u64>,
    pub counters: BTreeMap<String, u64>,
    pub balance_checked: u64,
}

fn run_child(bin: &str, dir: &str, tag: &str, plans: Vec<(u64, FPlan)>) -> ChildResult {
    // every child sees file names of the same length (they are allocated in the child: under
    // the system allocator the layout of its heap, and with it which freed address is handed
    // out again, must not depend on how a run happened to be labelled)
    let tag = format!("{:016x}", crate::prng::fnv(tag.as_bytes()));
    let tag = tag.as_str();
    let plans_len = plans.len();
    let job = format!("{}/job-{}.json", dir, tag);
    let crumb = format!("{}/crumb-{}", dir, tag);
    let out = format!("{}/out-{}.json", dir, tag);
    let _ = std::fs::remove_file(&crumb);
    let _ = std::fs::remove_file(&out);
    std::fs::write(&job, serde_json::to_vec(&Job { plans }).unwrap()).unwrap_or_else(|e| die(&format!("{}: {}", job, e)));
    // a call through the C ABI that never returns must not hang the check: the child gets a
    // wall-clock limit far above what a job ever needs (a job of 40 life cycles takes seconds)
    let limit = std::time::Duration::from_secs(if plans_len <= 1 { 90 } else { 420 });
    let mut child = Command::new(bin)
        .args(["ffi-child", &job, &crumb, &out])
        .env("ASAN_OPTIONS", format!("exitcode={}:detect_leaks=1:abort_on_error=0:allocator_may_return_null=1", EXIT_ASAN))
        .env("LSAN_OPTIONS", format!("exitcode={}", EXIT_LSAN))
        .env("RUST_BACKTRACE", "0")
        .stdin(Stdio::null())
        .stdout(Stdio::piped())
        .stderr(Stdio::piped())
        .spawn()
        .unwrap_or_else(|e| die(&format!("cannot start {}: {}", bin, e)));
    let drain = |mut r: Box<dyn std::io::Read + Send>| {
        std::thread::spawn(move || {
            let mut v = Vec::new();
            let _ = r.read_to_end(&mut v);
            v
        })
    };
    let so_t = drain(Box::new(child.stdout.take().expect("stdout")));
    let se_t = drain(Box::new(child.stderr.take().expect("stderr")));
    let started = Instant::now();
    let mut timed_out = false;
    let status = loop {
        match child.try_wait() {
            Ok(Some(st)) => break Some(st),
            Ok(None) => {
                if started.elapsed() > limit {
                    let _ = child.kill();
                    let _ = child.wait();
                    timed_out = true;
                    break None;
                }
                std::thread::sleep(std::time::Duration::from_millis(15));
            }
            Err(e) => die(&format!("waiting for {}: {}", bin, e)),
        }
    };
    struct Res {
        stdout: Vec<u8>,
        stderr: Vec<u8>,
        code: Option<i32>,
    }
    let res = Res { stdout: so_t.join().unwrap_or_default(), stderr: se_t.join().unwrap_or_default(), code: status.and_then(|s| s.code()) };
    let crumb_v = std::fs::read_to_string(&crumb).ok().and_then(|s| s.trim().parse().ok());
    let parsed: Option<ChildOut> = std::fs::read(&out).ok().and_then(|b| serde_json::from_slice(&b).ok());
    let mut tail = String::from_utf8_lossy(&res.stderr).to_string();
    let so = String::from_utf8_lossy(&res.stdout).to_string();
    if so.contains("HARNESS-ERROR") {
        die(&format!("child: {}", so));
    }
    if tail.len() > 3000 {
        tail = tail[..3000].to_string();
    }
    let _ = std::fs::remove_file(&job);
    let _ = std::fs::remove_file(&crumb);
    let _ = std::fs::remove_file(&out);
    ChildResult {
        out: parsed.map(|o| ChildOut2 {
            violation: o.violation,
            lifecycles: o.lifecycles,
            calls: o.calls,
            evaluations: o.evaluations,
            states: o.states,
            counters: o.counters,
            balance_checked: o.balance_checked,
        }),
        exit: res.code,
        crumb: crumb_v,
        stderr_tail: tail,
        timed_out,
    }
}

/// What a single plan does in a fresh child: None = fine, Some((clause, detail, op)).
fn judge_single(bin: &str, dir: &str, tag: &str, index: u64, plan: &FPlan) -> Option<(String, String, usize)> {
    let r = run_child(bin, dir, tag, vec![(index, plan.clone())]);
    classify(&r, plan.ops.len())
}

fn classify(r: &ChildResult, nops: usize) -> Option<(String, String, usize)> {
    if let Some(o) = &r.out {
        if let Some((_, clause, detail, op)) = &o.violation {
            return Some((clause.clone(), detail.clone(), *op));
        }
    }
    if r.timed_out {
        return Some(("no-return".into(), "a call through the C interface did not return (child killed at its wall-clock limit)".into(), nops));
    }
    let asan = r.stderr_tail.contains("ERROR: AddressSanitizer");
    let lsan = r.stderr_tail.contains("ERROR: LeakSanitizer");
    match r.exit {
        Some(0) => None,
        Some(EXIT_LSAN) | Some(EXIT_ASAN) if asan => Some(("asan-report".into(), summarize(&r.stderr_tail), nops)),
        Some(EXIT_LSAN) | Some(EXIT_ASAN) if lsan => Some(("lsan-leak".into(), summarize(&r.stderr_tail), nops)),
        Some(EXIT_LSAN) | Some(EXIT_ASAN) => Some(("sanitizer-report".into(), summarize(&r.stderr_tail), nops)),
        Some(EXIT_ORACLE) => Some(("oracle".into(), "child reported a violation but wrote no result".into(), nops)),
        Some(2) => die(&format!("child harness error: {}", r.stderr_tail)),
        other => Some((
            "child-died".into(),
            format!("child ended with {:?} (abort through the C ABI?): {}", other, summarize(&r.stderr_tail)),
            nops,
        )),
    }
}

fn summarize(stderr: &str) -> String {
    let lines: Vec<&str> = stderr
        .lines()
        .filter(|l| l.contains("ERROR:") || l.contains("SUMMARY:") || l.contains("panicked") || l.contains("leak of"))
        .take(6)
        .collect();
    if lines.is_empty() {
        stderr.lines().take(4).collect::<Vec<_>>().join(" | ")
    } else {
        lines.join(" | ")
    }
}

fn asan_bin(env: &Env) -> String {
    std::env::var("RITI_ASAN_BIN").unwrap_or_else(|_| format!("{}/.cache/target-asan/x86_64-unknown-linux-gnu/release/riti-sim", env.paths.verif))
}

/// The same simulator without the sanitizer (this very binary): the system allocator re-uses
/// freed addresses at once, which AddressSanitizer's quarantine never does, and only the
/// counting allocator and the C = Rust comparisons judge.
fn plain_bin() -> String {
    std::env::current_exe().ok().and_then(|p| p.to_str().map(|s| s.to_string())).unwrap_or_else(|| die("current_exe"))
}

const PLAIN: &str = "plain-allocator/";

/// One life cycle alone in a fresh child of the build that reported `clause_hint`.
fn judge_any(asan: &str, clause_hint: &str, dir: &str, tag: &str, index: u64, plan: &FPlan) -> Option<(String, String, usize)> {
    if clause_hint.starts_with(PLAIN) {
        judge_single(&plain_bin(), dir, tag, index, plan).map(|(c, d, o)| (format!("{}{}", PLAIN, c), d, o))
    } else {
        judge_single(asan, dir, tag, index, plan)
    }
}

/// `plan` after `prefix` in one child of the build without the sanitizer; a violation counts
/// only when it is reported for `plan` itself.
fn judge_with_prefix(dir: &str, tag: &str, index: u64, prefix: &[FPlan], plan: &FPlan) -> Option<(String, String, usize)> {
    let first = index.saturating_sub(prefix.len() as u64);
    let mut plans: Vec<(u64, FPlan)> = prefix.iter().enumerate().map(|(k, p)| (first + k as u64, p.clone())).collect();
    plans.push((index, plan.clone()));
    let r = run_child(&plain_bin(), dir, tag, plans);
    match r.out.as_ref().and_then(|o| o.violation.clone()) {
        Some((i, c, d, op)) if i == index => Some((format!("{}{}", PLAIN, c), d, op)),
        Some(_) => None,
        None => {
            if r.crumb == Some(index) {
                classify(&r, plan.ops.len()).map(|(c, d, o)| (format!("{}{}", PLAIN, c), d, o))
            } else {
                None
            }
        }
    }
}

pub fn cmd_replay(env: &Env, path: &str, rep: &FReplay) -> i32 {
    let bin = asan_bin(env);
    let dir = format!("{}/.cache/ffi", env.paths.verif);
    let _ = std::fs::create_dir_all(&dir);
    for (i, op) in rep.plan.ops.iter().enumerate() {
        println!("#{:<3} {:?}", i, op);
    }
    let verdict = if rep.prefix_plans.is_empty() {
        judge_any(&bin, &rep.clause, &dir, &format!("replay-{}", std::process::id()), rep.run_index, &rep.plan)
    } else {
        println!("(after {} earlier life cycles in the same process, system allocator)", rep.prefix_plans.len());
        judge_with_prefix(&dir, &format!("replay-{}", std::process::id()), rep.run_index, &rep.prefix_plans, &rep.plan)
    };
    match verdict {
        Some((clause, detail, _)) => {
            println!("clause: {}", clause);
            println!("detail: {}", detail);
            if clause == rep.clause {
                println!("REPRODUCED (same clause as recorded: {})", rep.clause);
            } else {
                println!("REPRODUCED A DIFFERENT CLAUSE (recorded: {})", rep.clause);
            }
            println!("VIOLATION property=C19 replay={}", path);
            1
        }
        None => {
            println!("NOT REPRODUCED (the recorded life cycle is now clean)");
            0
        }
    }
}

pub fn cmd_run(env: &Arc<Env>, tier: &str, args: &[String]) -> i32 {
    let t0 = Instant::now();
    let thorough = tier == "thorough";
    let verif_seed: u64 = std::env::var("VERIF_SEED").ok().and_then(|s| s.parse().ok()).unwrap_or(crate::runner::DEFAULT_SEED);
    let arg = |n: &str| args.iter().position(|a| a == n).and_then(|i| args.get(i + 1)).and_then(|s| s.parse::<u64>().ok());
    let total = arg("--runs").unwrap_or(if thorough { 24000 } else { 2400 });
    let workers = arg("--workers").unwrap_or(16) as usize;
    let wall_cap = std::time::Duration::from_secs(arg("--wall-cap").unwrap_or(if thorough { 2400 } else { 300 }));
    let chunk = 40u64;
    let bin = asan_bin(env);
    if !std::path::Path::new(&bin).exists() {
        die(&format!("sanitizer build missing: {}", bin));
    }
    let dir = format!("{}/.cache/ffi", env.paths.verif);
    std::fs::create_dir_all(&dir).unwrap_or_else(|e| die(&format!("{}: {}", dir, e)));
    println!("riti-sim: property=C19 scenario=ffi_lifecycle tier={} VERIF_SEED={} lifecycles={} workers={} (children: {})", tier, verif_seed, total, workers, bin);

    let next = Arc::new(AtomicU64::new(0));
    let first_bad = Arc::new(AtomicU64::new(u64::MAX));
    struct Agg {
        lifecycles: u64,
        calls: u64,
        evaluations: u64,
        balance: u64,
        states: HashSet<u64>,
        counters: BTreeMap<String, u64>,
        bad: Vec<(u64, FPlan, String, String, usize)>,
        samples: Vec<(u64, FPlan)>,
        capped: bool,
    }
    let agg = Arc::new(Mutex::new(Agg {
        lifecycles: 0,
        calls: 0,
        evaluations: 0,
        balance: 0,
        states: HashSet::new(),
        counters: BTreeMap::new(),
        bad: Vec::new(),
        samples: Vec::new(),
        capped: false,
    }));
    let mut hs = Vec::new();
    for w in 0..workers {
        let env = env.clone();
        let next = next.clone();
        let first_bad = first_bad.clone();
        let agg = agg.clone();
        let bin = bin.clone();
        let dir = dir.clone();
        hs.push(std::thread::spawn(move || loop {
            let start = next.fetch_add(chunk, Ordering::SeqCst);
            if start >= total || start > first_bad.load(Ordering::SeqCst) {
                break;
            }
            if t0.elapsed() > wall_cap {
                agg.lock().unwrap().capped = true;
                break;
            }
            let end = (start + chunk).min(total);
            let plans: Vec<(u64, FPlan)> = (start..end).map(|i| (i, gen_plan(&env, lifecycle_seed(verif_seed, i), thorough))).collect();
            let tag = format!("{}-{}-{}", std::process::id(), w, start);
            let r = run_child(&bin, &dir, &tag, plans.clone());
            let mut found: Option<(u64, FPlan, String, String, usize)> = None;
            let verdict = classify(&r, 0);
            if let Some((clause, detail, op)) = verdict {
                // which plan? an oracle violation names it; a dead child left a breadcrumb;
                // a leak report at exit names nobody: re-run the chunk's plans one by one
                let idx = r.out.as_ref().and_then(|o| o.violation.as_ref().map(|v| v.0)).or(if clause == "lsan-leak" || clause == "sanitizer-report" { None } else { r.crumb });
                match idx {
                    Some(i) => {
                        if let Some((_, p)) = plans.iter().find(|(j, _)| *j == i) {
                            found = Some((i, p.clone(), clause, detail, op));
                        }
                    }
                    None => {
                        for (i, p) in &plans {
                            if let Some((c, d, o)) = judge_single(&bin, &dir, &format!("{}-s{}", tag, i), *i, p) {
                                found = Some((*i, p.clone(), c, d, o));
                                break;
                            }
                        }
                    }
                }
                if found.is_none() {
                    found = Some((start, plans[0].1.clone(), "unattributed".into(), "a child failed but no single life cycle reproduces it".into(), 0));
                }
            } else if (start / chunk) % 2 == 0 {
                // half of the chunks: the same life cycles once more under the system
                // allocator (no sanitizer)
                let plain = plain_bin();
                let r2 = run_child(&plain, &dir, &format!("{}p", tag), plans.clone());
                if let Some((clause, detail, op)) = classify(&r2, 0) {
                    let idx = r2.out.as_ref().and_then(|o| o.violation.as_ref().map(|v| v.0)).or(r2.crumb);
                    let clause = format!("{}{}", PLAIN, clause);
                    match idx.and_then(|i| plans.iter().find(|(j, _)| *j == i)) {
                        Some((i, p)) => found = Some((*i, p.clone(), clause, detail, op)),
                        None => {
                            for (i, p) in &plans {
                                if let Some((c, d, o)) = judge_any(&bin, &clause, &dir, &format!("{}-ps{}", tag, i), *i, p) {
                                    found = Some((*i, p.clone(), c, d, o));
                                    break;
                                }
                            }
                        }
                    }
                    if found.is_none() {
                        found = Some((start, plans[0].1.clone(), "unattributed".into(), "a child under the system allocator failed but no single life cycle reproduces it".into(), 0));
                    }
                }
                if let Some(o) = &r2.out {
                    let mut a = agg.lock().unwrap();
                    a.balance += o.balance_checked;
                    a.evaluations += o.evaluations;
                    *a.counters.entry("lifecycles_also_under_the_system_allocator".into()).or_insert(0) += o.lifecycles;
                }
            }
            let mut a = agg.lock().unwrap();
            if let Some(o) = &r.out {
                a.lifecycles += o.lifecycles;
                a.calls += o.calls;
                a.evaluations += o.evaluations;
                a.balance += o.balance_checked;
                a.states.extend(o.states.iter().copied());
                for (k, v) in &o.counters {
                    *a.counters.entry(k.clone()).or_insert(0) += v;
                }
            }
            if a.samples.len() < 2 {
                if let Some((i, p)) = plans.iter().find(|(_, p)| p.ops.len() <= 45) {
                    a.samples.push((*i, p.clone()));
                }
            }
            if let Some(f) = found {
                first_bad.fetch_min(f.0, Ordering::SeqCst);
                a.bad.push(f);
            }
        }));
    }
    for h in hs {
        if h.join().is_err() {
            die("an orchestration thread panicked");
        }
    }
    let mut a = agg.lock().unwrap();
    a.bad.sort_by_key(|b| b.0);
    let mut exit = 0;
    let mut violations = 0;
    if let Some((index, plan, clause, detail, _)) = a.bad.first().cloned() {
        // "unattributed" means flaky infrastructure, not a finding
        if clause == "unattributed" {
            die(&format!("{} (chunk starting at {})", detail, index));
        }
        // confirm alone in a fresh child, then minimise by re-running children on sub-plans
        let tag = format!("{}-min", std::process::id());
        let confirmed = judge_any(&bin, &clause, &dir, &tag, index, &plan);
        let mut prefix_plans: Vec<FPlan> = Vec::new();
        let (mut best, mut best_v) = match confirmed {
            Some((c, d, o)) if c == clause => (plan.clone(), (c, d, o)),
            other => {
                // under the system allocator a violation may depend on the heap the earlier life
                // cycles of the same process left behind: confirm it after the same predecessors
                let mut again = None;
                if clause.starts_with(PLAIN) {
                    let start = index - index % chunk;
                    prefix_plans = (start..index).map(|i| gen_plan(env, lifecycle_seed(verif_seed, i), thorough)).collect();
                    again = judge_with_prefix(&dir, &tag, index, &prefix_plans, &plan);
                }
                match again {
                    Some((c, d, o)) if c == clause => (plan.clone(), (c, d, o)),
                    _ => die(&format!("life cycle {} reported {} but alone in a fresh child it gives {:?}", index, clause, other.map(|x| x.0))),
                }
            }
        };
        // (no minimisation for a violation that needs its predecessors: every candidate would
        // change the heap it depends on)
        let budget = if !prefix_plans.is_empty() { 0 } else if clause == "no-return" { 15 } else { 120 }; // every confirmation of a hang costs its whole time limit
        let mut execs = 0;
        let mut chunk_sz = (best.ops.len() / 2).max(1);
        loop {
            let mut removed = false;
            let mut i = 0;
            while i < best.ops.len() && execs < budget {
                let end = (i + chunk_sz).min(best.ops.len());
                if end - i >= best.ops.len() {
                    i += chunk_sz;
                    continue;
                }
                let mut p = best.clone();
                p.ops.drain(i..end);
                execs += 1;
                match judge_any(&bin, &clause, &dir, &tag, index, &p) {
                    Some((c, d, o)) if c == clause => {
                        best = p;
                        best_v = (c, d, o);
                        removed = true;
                    }
                    _ => i += chunk_sz,
                }
            }
            if execs >= budget {
                break;
            }
            if chunk_sz == 1 {
                if !removed {
                    break;
                }
            } else {
                chunk_sz = (chunk_sz / 2).max(1);
            }
        }
        let rep = FReplay {
            property: "C19".into(),
            scenario: "ffi_lifecycle".into(),
            clause: best_v.0.clone(),
            detail: best_v.1.clone(),
            verif_seed,
            run_index: index,
            original_ops: plan.ops.len(),
            minimised_ops: best.ops.len(),
            plan: best.clone(),
            prefix_plans: prefix_plans.clone(),
        };
        let rdir = format!("{}/replays/C19", env.paths.verif);
        let _ = std::fs::create_dir_all(&rdir);
        let text = serde_json::to_string_pretty(&rep).unwrap();
        let path = format!("{}/{}-{}-{:08x}.json", rdir, verif_seed, index, crate::prng::fnv(text.as_bytes()) as u32);
        std::fs::write(&path, text).unwrap_or_else(|e| die(&format!("{}: {}", path, e)));
        println!("violated clause: {}", best_v.0);
        println!("detail: {}", best_v.1);
        println!("minimised from {} to {} calls in {} child executions:", plan.ops.len(), best.ops.len(), execs);
        for op in &best.ops {
            println!("    {:?}", op);
        }
        println!("VIOLATION property=C19 replay={}", path);
        exit = 1;
        violations = 1;
    }
    let wall = t0.elapsed().as_secs_f64();
    let samples: Vec<serde_json::Value> = a
        .samples
        .iter()
        .map(|(i, p)| json!({"lifecycle_index": i, "calls": p.ops.iter().map(|o| format!("{:?}", o)).collect::<Vec<_>>()}))
        .collect();
    let ev = json!({
        "property_id": "C19",
        "tier": tier,
        "seed": verif_seed,
        "level": "exploration",
        "coverage": {
            "evaluations": a.evaluations,
            "distinct_nontrivial": a.states.len(),
            "rule": "a case is one life cycle (20-110 calls over pools of 3 configs, 2 contexts, 6 suggestions, 8 held strings) executed only through the 33 exported C functions in an AddressSanitizer + LeakSanitizer child; the seeded scheduler orders context events, read-outs and frees (read-outs of suggestions after the context moved on or was freed, strings held across frees, configs freed before their contexts are used, NULL frees); about a third of the keys of a fixed-layout context come in bursts aimed at the composer's states, now and then one composition of 30-60 keys is typed in one go and read out completely, and in four of ten life cycles the disk every context starts from holds a user auto-correct list (in half of those with a byte that is not UTF-8 inside a value). An evaluation is one compared read-out (C getters vs Rust API on the same object, C wrapper vs the Rust method on a lock-step twin, later re-reads vs the first read, held strings at release) or one allocation-balance check. States are distinct non-empty observations (option bits + full read-out).",
            "samples": samples,
            "lifecycles": a.lifecycles,
            "lifecycles_requested": total,
            "stopped_by_wall_cap": a.capped,
            "c_calls_made": a.calls,
            "allocation_balance_checks": a.balance,
            "counters": a.counters,
            "runs_per_hour": if wall > 0.0 { (a.lifecycles as f64 / wall * 3600.0) as u64 } else { 0 },
            "seeds_per_hour": if wall > 0.0 { (a.lifecycles as f64 / wall * 3600.0) as u64 } else { 0 },
            "faults_injected": {},
            "faults_note": "there is no fault surface in the statement; what the scheduler explores is the ordering of frees against uses",
            "sanitizers": "AddressSanitizer + LeakSanitizer (nightly -Zsanitizer=address) on riti, its dependencies and the driver; counting global allocator for the balance check",
            "real_vs_stub": {"real": "all 33 extern \"C\" functions of src/ffi.rs and everything behind them", "stub": "std::fs for the two per-user files (SimDisk), OS entropy, ahash keys, the C caller"},
            "workers": workers
        },
        "assumptions": [
            "the driver is Rust calling the C symbols through extern declarations transcribed from include/riti.h; a real C caller is not compiled",
            "std itself is not sanitizer-instrumented (prebuilt), allocations still go through the ASan allocator",
            "the known third-party encoder panic (C02 finding: ANSI + VOCALIC RR sign) is kept out of the generated configurations"
        ],
        "wall_s": wall,
        "violations": violations
    });
    let epath = format!("{}/evidence/C19.json", env.paths.verif);
    let tmp = format!("{}.{}.tmp", epath, std::process::id());
    std::fs::write(&tmp, serde_json::to_string_pretty(&ev).unwrap()).unwrap_or_else(|e| die(&format!("{}: {}", tmp, e)));
    std::fs::rename(&tmp, &epath).unwrap_or_else(|e| die(&format!("{}: {}", epath, e)));
    println!(
        "C19: lifecycles={} c_calls={} evaluations={} balance_checks={} distinct_states={} wall={:.1}s evidence={}",
        a.lifecycles, a.calls, a.evaluations, a.balance, a.states.len(), wall, epath
    );
    if exit == 0 {
        println!("OK property=C19 held on everything explored");
    }
    exit
}
