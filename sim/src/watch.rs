//! Calls that never return and calls that kill the process.
//!
//! `catch_unwind` sees panics only. An endless loop hangs the worker thread and a stack
//! overflow or `abort()` kills the whole simulator, so every batch runs in a child process
//! (`run-inner`) that leaves breadcrumbs in static atomics:
//!  * a watchdog thread in the child notices a call that has not returned for HANG_MS,
//!    prints `SUSPECT kind=hang runs=<r>` and exits with EXIT_SUSPECT;
//!  * a SIGSEGV/SIGABRT/SIGBUS/SIGILL handler prints `SUSPECT kind=signal runs=<all runs in
//!    flight>` with async-signal-safe writes and exits with EXIT_SUSPECT.
//! The parent then re-generates the suspect runs' plans from their seeds, executes each in
//! a fresh child with a timeout, minimises the one that dies the same way by further child
//! runs, and writes the replay file. Replaying such a file also happens in a child.

use std::sync::atomic::{AtomicU64, Ordering};

pub const MAX_WORKERS: usize = 64;
pub const HANG_MS: u64 = 60_000;
pub const EXIT_SUSPECT: i32 = 6;

pub struct Slot {
    pub run: AtomicU64,
    pub op: AtomicU64,
    pub call_start_ms: AtomicU64,
    pub states: AtomicU64,
}

#[allow(clippy::declare_interior_mutable_const)]
const EMPTY: Slot = Slot {
    run: AtomicU64::new(u64::MAX),
    op: AtomicU64::new(0),
    call_start_ms: AtomicU64::new(0),
    states: AtomicU64::new(0),
};
pub static SLOTS: [Slot; MAX_WORKERS] = [EMPTY; MAX_WORKERS];
pub static RUNS_DONE: AtomicU64 = AtomicU64::new(0);
pub static OPS_DONE: AtomicU64 = AtomicU64::new(0);
pub static EVALS_DONE: AtomicU64 = AtomicU64::new(0);
static T0_SET: AtomicU64 = AtomicU64::new(0);

thread_local! {
    static WORKER: std::cell::Cell<usize> = const { std::cell::Cell::new(usize::MAX) };
}

fn now_ms() -> u64 {
    // milliseconds since the first call (monotonic)
    use std::sync::OnceLock;
    static T0: OnceLock<std::time::Instant> = OnceLock::new();
    let t0 = T0.get_or_init(std::time::Instant::now);
    T0_SET.store(1, Ordering::Relaxed);
    t0.elapsed().as_millis() as u64 + 1
}

pub fn set_worker(ix: usize) {
    WORKER.with(|w| w.set(ix));
    let _ = now_ms();
}

pub fn begin_run(run: u64) {
    let w = WORKER.with(|w| w.get());
    if w < MAX_WORKERS {
        SLOTS[w].run.store(run, Ordering::Relaxed);
        SLOTS[w].op.store(0, Ordering::Relaxed);
    }
}

pub fn end_run(ops: u64, evals: u64, states: u64) {
    let w = WORKER.with(|w| w.get());
    if w < MAX_WORKERS {
        SLOTS[w].run.store(u64::MAX, Ordering::Relaxed);
        SLOTS[w].states.store(states, Ordering::Relaxed);
    }
    RUNS_DONE.fetch_add(1, Ordering::Relaxed);
    OPS_DONE.fetch_add(ops, Ordering::Relaxed);
    EVALS_DONE.fetch_add(evals, Ordering::Relaxed);
}

/// Around every call into riti.
#[inline]
pub fn enter_call(op_index: usize) {
    let w = WORKER.with(|w| w.get());
    if w < MAX_WORKERS {
        SLOTS[w].op.store(op_index as u64, Ordering::Relaxed);
        SLOTS[w].call_start_ms.store(now_ms(), Ordering::Relaxed);
    }
}

#[inline]
pub fn leave_call() {
    let w = WORKER.with(|w| w.get());
    if w < MAX_WORKERS {
        SLOTS[w].call_start_ms.store(0, Ordering::Relaxed);
    }
}

pub fn progress_line() -> String {
    let states: u64 = SLOTS.iter().map(|s| s.states.load(Ordering::Relaxed)).sum();
    format!(
        "runs_done={} ops_done={} evals_done={} states_sum_over_workers={}",
        RUNS_DONE.load(Ordering::Relaxed),
        OPS_DONE.load(Ordering::Relaxed),
        EVALS_DONE.load(Ordering::Relaxed),
        states
    )
}

/// Watchdog of the child: a call that has not returned for HANG_MS.
pub fn spawn_watchdog() {
    std::thread::Builder::new()
        .name("watchdog".into())
        .spawn(|| loop {
            std::thread::sleep(std::time::Duration::from_millis(250));
            let now = now_ms();
            for s in SLOTS.iter() {
                let t = s.call_start_ms.load(Ordering::Relaxed);
                if t != 0 && now.saturating_sub(t) > HANG_MS {
                    let run = s.run.load(Ordering::Relaxed);
                    println!("SUSPECT kind=hang runs={} op={} {}", run, s.op.load(Ordering::Relaxed), progress_line());
                    use std::io::Write;
                    let _ = std::io::stdout().flush();
                    unsafe { libc::_exit(EXIT_SUSPECT) };
                }
            }
        })
        .expect("watchdog");
}

fn write_u64(buf: &mut [u8], pos: &mut usize, mut v: u64) {
    let mut tmp = [0u8; 20];
    let mut n = 0;
    if v == 0 {
        tmp[0] = b'0';
        n = 1;
    }
    while v > 0 {
        tmp[n] = b'0' + (v % 10) as u8;
        v /= 10;
        n += 1;
    }
    while n > 0 && *pos < buf.len() {
        n -= 1;
        buf[*pos] = tmp[n];
        *pos += 1;
    }
}

extern "C" fn on_fatal_signal(sig: libc::c_int) {
    // async-signal-safe: only atomics, a stack buffer and write(2)
    let mut buf = [0u8; 1024];
    let mut pos = 0;
    let head = b"\nSUSPECT kind=signal sig=";
    buf[..head.len()].copy_from_slice(head);
    pos += head.len();
    write_u64(&mut buf, &mut pos, sig as u64);
    let mid = b" runs=";
    buf[pos..pos + mid.len()].copy_from_slice(mid);
    pos += mid.len();
    let mut first = true;
    for s in SLOTS.iter() {
        let r = s.run.load(Ordering::Relaxed);
        if r != u64::MAX {
            if !first && pos < buf.len() {
                buf[pos] = b',';
                pos += 1;
            }
            first = false;
            write_u64(&mut buf, &mut pos, r);
        }
    }
    let tail = b" runs_done=";
    if pos + tail.len() + 22 < buf.len() {
        buf[pos..pos + tail.len()].copy_from_slice(tail);
        pos += tail.len();
        write_u64(&mut buf, &mut pos, RUNS_DONE.load(Ordering::Relaxed));
    }
    if pos < buf.len() {
        buf[pos] = b'\n';
        pos += 1;
    }
    unsafe {
        libc::write(1, buf.as_ptr() as *const libc::c_void, pos);
        libc::_exit(EXIT_SUSPECT);
    }
}

/// Installs the fatal-signal handler on an alternate stack (a stack overflow leaves no
/// room on the faulting thread's own stack).
pub fn install_signal_handler() {
    unsafe {
        let size = 64 * 1024;
        let stack = libc::mmap(
            std::ptr::null_mut(),
            size,
            libc::PROT_READ | libc::PROT_WRITE,
            libc::MAP_PRIVATE | libc::MAP_ANONYMOUS,
            -1,
            0,
        );
        if stack != libc::MAP_FAILED {
            let ss = libc::stack_t { ss_sp: stack, ss_flags: 0, ss_size: size };
            libc::sigaltstack(&ss, std::ptr::null_mut());
        }
        for sig in [libc::SIGABRT, libc::SIGSEGV, libc::SIGBUS, libc::SIGILL] {
            let mut sa: libc::sigaction = std::mem::zeroed();
            sa.sa_sigaction = on_fatal_signal as usize;
            sa.sa_flags = libc::SA_ONSTACK;
            libc::sigemptyset(&mut sa.sa_mask);
            libc::sigaction(sig, &sa, std::ptr::null_mut());
        }
    }
}

/// Per-thread alternate stack for worker threads (sigaltstack is per thread).
pub fn install_thread_altstack() {
    unsafe {
        let size = 64 * 1024;
        let stack = libc::mmap(
            std::ptr::null_mut(),
            size,
            libc::PROT_READ | libc::PROT_WRITE,
            libc::MAP_PRIVATE | libc::MAP_ANONYMOUS,
            -1,
            0,
        );
        if stack != libc::MAP_FAILED {
            let ss = libc::stack_t { ss_sp: stack, ss_flags: 0, ss_size: size };
            libc::sigaltstack(&ss, std::ptr::null_mut());
        }
    }
}

// ------------------------------------------------------------------ parent side

use std::process::{Command, Stdio};
use std::time::{Duration, Instant};

#[derive(Debug, Clone, PartialEq)]
pub enum ChildEnd {
    Exit(i32),
    Signal(i32),
    TimedOut,
}

/// Runs `riti-sim <args>` with a wall-clock limit; returns how it ended and its stdout.
pub fn run_child(args: &[String], limit: Duration, echo: bool) -> (ChildEnd, String) {
    let exe = std::env::current_exe().expect("current_exe");
    let mut child = Command::new(exe)
        .args(args)
        .stdin(Stdio::null())
        .stdout(Stdio::piped())
        .stderr(Stdio::inherit())
        .spawn()
        .expect("spawn child");
    let mut out = child.stdout.take().expect("stdout");
    let reader = std::thread::spawn(move || {
        use std::io::Read;
        let mut all = String::new();
        let mut buf = [0u8; 8192];
        loop {
            match out.read(&mut buf) {
                Ok(0) | Err(_) => break,
                Ok(n) => {
                    let s = String::from_utf8_lossy(&buf[..n]).to_string();
                    if echo {
                        print!("{}", s);
                        use std::io::Write;
                        let _ = std::io::stdout().flush();
                    }
                    all.push_str(&s);
                }
            }
        }
        all
    });
    let t0 = Instant::now();
    let end = loop {
        match child.try_wait() {
            Ok(Some(st)) => {
                use std::os::unix::process::ExitStatusExt;
                break match (st.code(), st.signal()) {
                    (Some(c), _) => ChildEnd::Exit(c),
                    (None, Some(s)) => ChildEnd::Signal(s),
                    _ => ChildEnd::Exit(2),
                };
            }
            Ok(None) => {
                if t0.elapsed() > limit {
                    let _ = child.kill();
                    let _ = child.wait();
                    break ChildEnd::TimedOut;
                }
                std::thread::sleep(Duration::from_millis(20));
            }
            Err(_) => break ChildEnd::Exit(2),
        }
    };
    let text = reader.join().unwrap_or_default();
    (end, text)
}

/// Parses `SUSPECT kind=... runs=a,b,c` out of a child's output.
pub fn parse_suspect(out: &str) -> Option<(String, Vec<u64>, String)> {
    let line = out.lines().rev().find(|l| l.contains("SUSPECT kind="))?;
    let kind = line.split("kind=").nth(1)?.split_whitespace().next()?.to_string();
    let runs: Vec<u64> = line
        .split("runs=")
        .nth(1)?
        .split_whitespace()
        .next()?
        .split(',')
        .filter_map(|s| s.parse().ok())
        .filter(|r| *r != u64::MAX)
        .collect();
    Some((kind, runs, line.to_string()))
}
