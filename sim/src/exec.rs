//! The interpreter: executes a plan (explicit op list) against real riti contexts over
//! the simulated disk, evaluates the scenario's oracle while the run proceeds and over
//! the recorded history at the end. Execution is a pure function of the plan and the
//! code: no PRNG, no clock (the per-call stopwatch of C01 never feeds back).

use std::collections::BTreeMap;

use crate::cfg::{CfgSpec, LayoutKind, ENGLISH, FIXED_SUG, KAR_ORDER, NUMPAD, OLD_REPH};
use crate::disk::{DirState, FileId, SimDisk, WriteOutcome};
use crate::env::Env;
use crate::fixedmodel::{self, ModelStep, RephPlacement};
use crate::host::{Host, Obs, ObsKind};
use crate::learn::{self, Expect, LearnModel};
use crate::plan::{FileSt, Idx, Mt, Op, Plan, Scenario, Sel};
use crate::prng::fnv_add;
use crate::stats::Stats;

#[derive(Clone, Debug)]
pub struct Violation {
    pub clause: String,
    pub detail: String,
    pub op_index: usize,
}

#[derive(Clone, Debug)]
pub enum End {
    Ok,
    Violation(Violation),
    /// The run could not be judged (a panic outside the scenarios that judge panics, a
    /// broken premise); counted, never an alarm.
    Inconclusive(String),
    /// The harness itself failed (exit 2, never a VIOLATION line).
    Harness(String),
}

pub const BYSTANDER: u8 = 4;

pub struct Outcome {
    /// Fingerprint of what each host showed last (0 when the host does not exist).
    pub host_final: Vec<u64>,
    /// Digest of the observations only (what a front-end saw), comparable between a run
    /// on SimDisk and the same run on the real file system.
    pub obs_digest: u64,
    /// Parsed store at the end of the run.
    pub final_store: Option<BTreeMap<String, String>>,
    pub end: End,
    /// Digest of everything observable in the run: ops, observations, disk accesses.
    pub digest: u64,
    pub executed: usize,
}

#[derive(Clone)]
pub struct ExecOpts {
    /// Per-call wall-clock bound in ns (C01 only; 0 = do not measure).
    pub time_bound_ns: u64,
    /// Per-call bound on the bytes requested from the allocator (C01 only; 0 = no bound).
    pub alloc_bound_bytes: u64,
    /// Record a human-readable event log (replay / samples).
    pub log: bool,
    /// selftest fsmodel: run over real directories under this path instead of SimDisk.
    pub mirror_base: Option<String>,
}

impl Default for ExecOpts {
    fn default() -> Self {
        ExecOpts {
            time_bound_ns: 0,
            alloc_bound_bytes: 0,
            log: false,
            mirror_base: None,
        }
    }
}

enum Stop {
    Violation(String, String),
    Inconclusive(String),
    Harness(String),
}

#[derive(Clone, Copy, PartialEq, Eq, Debug)]
enum TwinKind {
    /// Observations must be equal (C06, C11, C10-F2).
    Equal,
    /// The twin has fixed suggestions off; its single string is the composed text the
    /// main host's auxiliary text must equal (C02).
    AuxRef,
}

#[derive(Default, Clone)]
struct FrontEnd {
    /// Phonetic: the raw text the front-end believes is in the composition.
    typed: String,
    typed_ok: bool,
    /// The last event on this host was a key whose character is not alphanumeric.
    last_punct: bool,
    /// Last event (for C05): Some((key, sel byte)) for a key, None for backspace/other.
    last_key: Option<(u16, u8)>,
    last_was_bs: bool,
    /// C12 model text.
    model: String,
    model_ok: bool,
}

impl FrontEnd {
    fn reset(&mut self) {
        self.typed.clear();
        self.typed_ok = true;
        self.last_punct = false;
        self.last_key = None;
        self.last_was_bs = false;
        self.model.clear();
        self.model_ok = true;
    }
}

struct Slot {
    host: Host,
    twin: Option<(Host, TwinKind)>,
    fe: FrontEnd,
    lm: LearnModel,
    /// Observation history (most recent last, at most 4).
    hist: Vec<Obs>,
    /// Which version of the user's auto-correct list (World::ac_epoch) this context loaded last
    /// (at creation, restart or an executed update_engine).
    ac_seen: u64,
    /// A save of this context has failed and none has succeeded since: the context knows a
    /// learned choice that the disk does not hold (C06: no reference context can be built).
    unsaved: bool,
}

pub struct World<'a> {
    env: &'a Env,
    scenario: Scenario,
    disk: SimDisk,
    slots: Vec<Option<Slot>>,
    stats: &'a mut Stats,
    opts: ExecOpts,
    digest: u64,
    inter: u64,
    obs_digest: u64,
    store_fp: u64,
    /// C10: what the harness knows the store file durably holds (None = unknown).
    durable: Option<LearnModel>,
    durable_prev: Option<Option<LearnModel>>,
    pub log: Vec<String>,
    slow_call: Option<(usize, u64)>,
    /// C01: the first call that requested more bytes from the allocator than the bound.
    heavy_call: Option<(usize, u64)>,
    run_max_call_ns: u64,
    cur: usize,
    /// C11: a clock fault (mtime tie / regress / list deleted) happened; divergences after
    /// it are informational.
    clock_fault: Option<&'static str>,
    /// Counts external changes of the user's auto-correct list.
    ac_epoch: u64,
    /// Files moved out of the user-data directory (bytes, modification time): store, list.
    aside: [Option<(Vec<u8>, u64)>; 2],
}

fn site_of(msg: &str) -> String {
    match msg.rfind(" @ ") {
        Some(i) => {
            let loc = &msg[i + 3..];
            match loc.find("src/") {
                Some(j) if !loc.contains(".cargo") => loc[j..].to_string(),
                _ => {
                    // a dependency: keep crate-relative tail
                    let parts: Vec<&str> = loc.rsplit('/').take(3).collect();
                    parts.into_iter().rev().collect::<Vec<_>>().join("/")
                }
            }
        }
        None => "<unknown>".into(),
    }
}

fn hex_decode(s: &str) -> Vec<u8> {
    let b = s.as_bytes();
    let mut out = Vec::with_capacity(b.len() / 2);
    let mut i = 0;
    while i + 1 < b.len() {
        let h = (b[i] as char).to_digit(16).unwrap_or(0);
        let l = (b[i + 1] as char).to_digit(16).unwrap_or(0);
        out.push((h * 16 + l) as u8);
        i += 2;
    }
    out
}

impl<'a> World<'a> {
    pub fn new(env: &'a Env, plan: &Plan, stats: &'a mut Stats, opts: ExecOpts) -> World<'a> {
        let disk = match &opts.mirror_base {
            Some(b) => SimDisk::new_mirror(b),
            None => SimDisk::new(),
        };
        if let Some(s) = &plan.prelude.store {
            disk.put(FileId::Store, Some(s.as_bytes().to_vec()), None);
        }
        if let Some(s) = &plan.prelude.autocorrect {
            disk.put(FileId::Autocorrect, Some(s.as_bytes().to_vec()), None);
        }
        disk.advance(1_000_000_000);
        let durable = match &plan.prelude.store {
            Some(s) => LearnModel::from_store_json(s.as_bytes()).or(Some(LearnModel::default())),
            None => Some(LearnModel::default()),
        };
        World {
            env,
            scenario: plan.scenario,
            disk,
            slots: (0..8).map(|_| None).collect(),
            stats,
            opts,
            digest: 0xcbf2_9ce4_8422_2325,
            inter: 0xcbf2_9ce4_8422_2325,
            obs_digest: 0xcbf2_9ce4_8422_2325,
            store_fp: 0,
            durable,
            durable_prev: None,
            log: Vec::new(),
            slow_call: None,
            heavy_call: None,
            run_max_call_ns: 0,
            cur: 0,
            clock_fault: None,
            ac_epoch: 0,
            aside: [None, None],
        }
    }

    pub fn store_len(&self) -> usize {
        self.disk.get(FileId::Store).map(|b| b.len()).unwrap_or(0)
    }

    fn note(&mut self, s: impl FnOnce() -> String) {
        if self.opts.log {
            let line = s();
            self.log.push(format!("#{:<3} {}", self.cur, line));
        }
    }

    fn judges_panics(&self) -> bool {
        matches!(self.scenario, Scenario::Crashfree | Scenario::UserfileFaults)
    }

    fn panic_stop(&mut self, what: &str, msg: String) -> Stop {
        if msg.starts_with("HARNESS:") {
            return Stop::Harness(msg);
        }
        let site = site_of(&msg);
        self.stats.bump(&format!("panic_site.{}", site));
        match self.scenario {
            Scenario::Crashfree => Stop::Violation(
                format!("panic@{}", site),
                format!("{} panicked: {}", what, msg),
            ),
            Scenario::UserfileFaults => Stop::Violation(
                format!("F1-panic@{}", site),
                format!("{} panicked: {}", what, msg),
            ),
            _ => Stop::Inconclusive(format!("{} panicked: {}", what, msg)),
        }
    }

    /// Start of a metered call into riti (C01 only): the thread's CPU time, not wall-clock
    /// time (a blow-up burns CPU, and a worker that merely waited for a core while other
    /// batches load the machine must not look slow), and the bytes the thread has requested
    /// from the allocator so far (a cost that is the same in every execution).
    fn meter_start(&self) -> Option<(u64, u64)> {
        if self.opts.time_bound_ns == 0 {
            None
        } else {
            Some((thread_cpu_ns(), crate::ffi::total_allocated()))
        }
    }

    fn meter_end(&mut self, m: Option<(u64, u64)>) {
        if let Some((t0, a0)) = m {
            let dt = thread_cpu_ns().saturating_sub(t0);
            let da = crate::ffi::total_allocated().wrapping_sub(a0);
            self.stats.max_call_ns = self.stats.max_call_ns.max(dt);
            self.stats.max_call_alloc = self.stats.max_call_alloc.max(da);
            self.run_max_call_ns = self.run_max_call_ns.max(dt);
            if dt > self.opts.time_bound_ns && self.slow_call.is_none() {
                self.slow_call = Some((self.cur, dt));
            }
            if self.opts.alloc_bound_bytes > 0 && da > self.opts.alloc_bound_bytes && self.heavy_call.is_none() {
                self.heavy_call = Some((self.cur, da));
            }
        }
    }

    fn timed<T>(&mut self, f: impl FnOnce() -> T) -> T {
        let m = self.meter_start();
        let r = f();
        self.meter_end(m);
        r
    }

    fn slot(&mut self, h: u8) -> Option<&mut Slot> {
        self.slots
            .get_mut(h as usize)
            .and_then(|s| s.as_mut())
            .filter(|s| s.host.alive())
    }

    fn skip(&mut self, op: &Op, why: &str) {
        self.stats.bump(&format!("skipped.{}.{}", op.kind(), why));
        self.note(|| format!("{:?} skipped: {}", op, why));
    }

    // ---------------------------------------------------------------- disk bookkeeping

    fn refresh_store_fp(&mut self) {
        self.store_fp = match self.disk.get(FileId::Store) {
            Some(b) => match learn::parse_store(&b) {
                Some(m) => {
                    let mut h = 0xcbf2_9ce4_8422_2325u64;
                    for (k, v) in &m {
                        h = fnv_add(h, k.as_bytes());
                        h = fnv_add(h, b"=");
                        h = fnv_add(h, v.as_bytes());
                    }
                    h
                }
                None => crate::prng::fnv(&b) ^ 1,
            },
            None => 0,
        };
    }

    /// Drains the disk's write log after a host call; updates the durable model, kills
    /// the writer after a torn-by-crash save. Returns the outcomes seen.
    fn after_host_call(&mut self, h: u8, had_unflushed: bool) -> Vec<WriteOutcome> {
        let writes = self.disk.drain_writes();
        let mut outcomes = Vec::new();
        if writes.is_empty() {
            return outcomes;
        }
        let before = self.durable.clone();
        for w in &writes {
            self.stats.bump("disk.write");
            match &w.outcome {
                WriteOutcome::Complete => {
                    self.stats.bump("save.complete");
                    if w.file == FileId::Store {
                        let lm = self.slots[h as usize].as_ref().map(|s| s.lm.clone());
                        self.durable = lm;
                    }
                }
                WriteOutcome::OpenFailed(k) => {
                    self.stats.bump(&format!("fault.save_open_fails.{:?}", k));
                }
                WriteOutcome::Failed(k, kind) => {
                    self.stats.bump(&format!("fault.save_fails_after.{:?}", kind));
                    self.stats.bump(if *k == 0 {
                        "fault.torn_at_0"
                    } else if *k == w.data.len() {
                        "fault.torn_at_len"
                    } else {
                        "fault.torn_inside"
                    });
                    self.durable = None;
                }
                WriteOutcome::CrashedBesideStore => {
                    // the store is intact: what is durable does not change
                    self.stats.bump("fault.crash_during_save");
                    self.stats.bump("fault.torn_temporary_file");
                }
                WriteOutcome::TornByCrash(k) => {
                    self.stats.bump("fault.crash_during_save");
                    self.stats.bump(if *k == 0 {
                        "fault.torn_at_0"
                    } else if *k == w.data.len() {
                        "fault.torn_at_len"
                    } else {
                        "fault.torn_inside"
                    });
                    self.durable = None;
                }
            }
            outcomes.push(w.outcome.clone());
        }
        if !had_unflushed && self.disk.has_unflushed() {
            self.durable_prev = Some(before);
        }
        self.refresh_store_fp();
        if self.disk.take_crash_pending() {
            if let Some(Some(s)) = self.slots.get_mut(h as usize) {
                s.host.kill();
                s.twin = None;
                s.fe.reset();
            }
            self.note(|| format!("host {} died inside the save (torn write)", h));
        }
        outcomes
    }

    fn unreadable(bytes: &Option<Vec<u8>>) -> bool {
        match bytes {
            Some(b) => !learn::is_object_of_strings(b),
            None => false,
        }
    }

    // ---------------------------------------------------------------- host lifecycle

    fn spawn_slot(&mut self, h: u8, spec: CfgSpec, what: &str) -> Result<(), Stop> {
        let disk = self.disk.clone();
        let env = self.env;
        let r = self.timed(|| Host::spawn(spec, disk, &env.paths));
        let _ = self.disk.drain_writes();
        let host = match r {
            Ok(host) => host,
            Err(msg) => return Err(self.panic_stop(what, msg)),
        };
        let mut fe = FrontEnd::default();
        fe.reset();
        let lm = match self.scenario {
            Scenario::UserfileFaults => self.durable.clone().unwrap_or_default(),
            // what the store held before the run began counts as learned ("if it is offered,
            // it is preselected"); a restart carries the model over (see Op::Restart)
            Scenario::LearnedDurability => self.disk.get(FileId::Store).and_then(|b| LearnModel::from_store_json(&b)).unwrap_or_default(),
            _ => LearnModel::default(),
        };
        let mut slot = Slot {
            host,
            twin: None,
            fe,
            lm,
            hist: vec![Obs::idle_empty()],
            ac_seen: self.ac_epoch,
            unsaved: false,
        };
        self.attach_auto_twin(&mut slot)?;
        self.slots[h as usize] = Some(slot);
        Ok(())
    }

    /// Twins that a scenario creates by itself at context creation.
    fn attach_auto_twin(&mut self, slot: &mut Slot) -> Result<(), Stop> {
        slot.twin = None;
        match self.scenario {
            Scenario::Wellformed => {
                let spec = slot.host.spec;
                if !spec.is_phonetic() && spec.has(FIXED_SUG) {
                    let tspec = spec.with(FIXED_SUG, false);
                    match Host::spawn(tspec, self.disk.fork(), &self.env.paths) {
                        Ok(t) => slot.twin = Some((t, TwinKind::AuxRef)),
                        Err(msg) => {
                            return Err(Stop::Inconclusive(format!("twin creation: {}", msg)))
                        }
                    }
                }
            }
            Scenario::UserfileFaults => {
                // F2: created over an unreadable file => must behave as if it were absent.
                let store = self.disk.get(FileId::Store);
                let ac = self.disk.get(FileId::Autocorrect);
                let bad_store = Self::unreadable(&store);
                let bad_ac = Self::unreadable(&ac);
                if (bad_store || bad_ac)
                    && slot.host.spec.is_phonetic()
                    && self.disk.dir() == DirState::Present
                {
                    let td = self.disk.fork();
                    if bad_store {
                        td.put(FileId::Store, None, None);
                        self.stats.bump("probe.created_over_unreadable_store");
                    }
                    if bad_ac {
                        td.put(FileId::Autocorrect, None, None);
                        self.stats.bump("probe.created_over_unreadable_autocorrect");
                    }
                    td.arm(None);
                    match Host::spawn(slot.host.spec, td, &self.env.paths) {
                        Ok(t) => slot.twin = Some((t, TwinKind::Equal)),
                        Err(msg) => return Err(self.panic_stop("twin creation (file absent)", msg)),
                    }
                }
            }
            _ => {}
        }
        Ok(())
    }

    /// F2 twins only make sense while nothing but this host's own typing happens.
    fn drop_fault_twins(&mut self) {
        if self.scenario == Scenario::UserfileFaults {
            for s in self.slots.iter_mut().flatten() {
                s.twin = None;
            }
        }
    }

    // ---------------------------------------------------------------- judging helpers

    fn record_state(&mut self, h: u8, obs: &Obs) {
        self.digest = obs.fingerprint(fnv_add(self.digest, &[h]));
        self.obs_digest = obs.fingerprint(fnv_add(self.obs_digest, &[h]));
        if !obs.is_empty() {
            let spec = self.slots[h as usize].as_ref().map(|s| s.host.spec);
            let mut fp = fnv_add(self.store_fp, &[h]);
            if let Some(spec) = spec {
                fp = fnv_add(fp, &spec.opts.to_le_bytes());
                fp = fnv_add(fp, &[spec.layout as u8, spec.data as u8]);
            }
            fp = obs.fingerprint(fp);
            self.stats.states.insert(fp);
        }
    }

    fn compare_twin(
        &mut self,
        kind: TwinKind,
        main: &Obs,
        twin: &Obs,
        what: &str,
    ) -> Result<(), Stop> {
        self.stats.evaluations += 1;
        match kind {
            TwinKind::Equal => {
                self.stats.bump("oracle.twin_compared");
                if main != twin && self.scenario == Scenario::Reconfigure && self.clock_fault.is_some() {
                    // not judged: "edited" presupposes that the modification time advanced
                    let k = self.clock_fault.unwrap();
                    self.stats.bump(&format!("info.divergence_on_{}", k));
                    for s in self.slots.iter_mut().flatten() {
                        s.twin = None;
                    }
                    return Ok(());
                }
                if main != twin {
                    let clause = match self.scenario {
                        Scenario::UserfileFaults => "F2-unreadable-as-absent",
                        _ => "twin-equal",
                    };
                    return Err(Stop::Violation(
                        clause.into(),
                        format!(
                            "after {}: used context shows [{}] but the reference context shows [{}]",
                            what,
                            main.brief(),
                            twin.brief()
                        ),
                    ));
                }
            }
            TwinKind::AuxRef => {
                if let ObsKind::List { aux, .. } = &main.kind {
                    self.stats.bump("oracle.aux_fixed_compared");
                    if aux != twin.shown_text() {
                        return Err(Stop::Violation(
                            "aux-fixed".into(),
                            format!(
                                "after {}: auxiliary text {:?} but the composed text is {:?}",
                                what,
                                aux,
                                twin.shown_text()
                            ),
                        ));
                    }
                }
            }
        }
        Ok(())
    }

    /// Structural invariants on a returned suggestion (C02).
    fn judge_wellformed(
        &mut self,
        h: u8,
        obs: &Obs,
        sel_valid_premise: bool,
        what: &str,
    ) -> Result<(), Stop> {
        self.stats.evaluations += 1;
        let (phonetic, typed_ok, typed) = {
            let s = self.slots[h as usize].as_ref().unwrap();
            (s.host.spec.is_phonetic(), s.fe.typed_ok, s.fe.typed.clone())
        };
        match &obs.kind {
            ObsKind::List { aux, cands, sel } => {
                if cands.is_empty() {
                    return Err(Stop::Violation(
                        "list-nonempty".into(),
                        format!("after {}: list-style suggestion with no candidate", what),
                    ));
                }
                if sel_valid_premise {
                    self.stats.bump("oracle.sel_in_range_judged");
                    if *sel >= cands.len() {
                        return Err(Stop::Violation(
                            "sel-in-range".into(),
                            format!(
                                "after {}: previously-selected index {} but the list has {} candidates {:?}",
                                what,
                                sel,
                                cands.len(),
                                cands
                            ),
                        ));
                    }
                } else {
                    self.stats.bump("oracle.sel_premise_broken");
                }
                if obs.pre.len() != cands.len() {
                    return Err(Stop::Violation(
                        "readable".into(),
                        format!("after {}: {} candidates but {} pre-edit texts", what, cands.len(), obs.pre.len()),
                    ));
                }
                for (i, p) in obs.pre.iter().enumerate() {
                    if let Err(msg) = p {
                        return Err(Stop::Violation(
                            format!("readable@{}", site_of(msg)),
                            format!("after {}: pre-edit text of index {} ({:?}) is not readable: {}", what, i, cands[i], msg),
                        ));
                    }
                }
                if phonetic && typed_ok {
                    self.stats.bump("oracle.aux_phonetic_judged");
                    if *aux != typed {
                        return Err(Stop::Violation(
                            "aux-phonetic".into(),
                            format!("after {}: auxiliary text {:?} but the user typed {:?}", what, aux, typed),
                        ));
                    }
                }
            }
            ObsKind::Single(_) | ObsKind::Empty => {
                if let Some(Err(msg)) = obs.pre.first() {
                    return Err(Stop::Violation(
                        format!("single-readable@{}", site_of(msg)),
                        format!("after {}: single-string suggestion not readable as pre-edit text: {}", what, msg),
                    ));
                }
            }
        }
        Ok(())
    }

    /// L1 / L2 of C09 (also F3 of C10) on an observation that shows riti's own choice.
    fn judge_learned(&mut self, h: u8, obs: &Obs, what: &str) -> Result<(), Stop> {
        let s = self.slots[h as usize].as_ref().unwrap();
        if !s.host.spec.is_phonetic() || !s.fe.typed_ok || s.fe.last_punct {
            return Ok(());
        }
        let (cands, sel) = match &obs.kind {
            ObsKind::List { cands, sel, .. } => (cands, *sel),
            _ => return Ok(()),
        };
        let typed = s.fe.typed.clone();
        let prefix = if self.scenario == Scenario::UserfileFaults { "F3-" } else { "" };
        let expect = match s.lm.expect_for(&typed) {
            // Under C10 the candidate lists themselves may change (the editor rewrites the
            // auto-correct list, files are damaged and healed), so a remembered choice
            // can only be demanded while it is still offered.
            Expect::Exactly(c) if self.scenario == Scenario::UserfileFaults => Expect::IfOffered(c),
            e => e,
        };
        match expect {
            Expect::Exactly(c) => {
                let c = c.to_string();
                self.stats.evaluations += 1;
                self.stats.bump("oracle.L1_judged");
                if cands.get(sel).map(|x| x.as_str()) != Some(c.as_str()) {
                    return Err(Stop::Violation(
                        format!("{}L1-remembered", prefix),
                        format!(
                            "after {}: text {:?} was committed as {:?} earlier, but index {} ({:?}) is preselected in {:?}",
                            what, typed, c, sel, cands.get(sel), cands
                        ),
                    ));
                }
                return Ok(());
            }
            Expect::IfOffered(c) => {
                if cands.iter().any(|x| x == c) {
                    let c = c.to_string();
                    self.stats.evaluations += 1;
                    self.stats.bump("oracle.L1_planted_judged");
                    if cands.get(sel).map(|x| x.as_str()) != Some(c.as_str()) {
                        return Err(Stop::Violation(
                            format!("{}L1-remembered", prefix),
                            format!(
                                "after {}: the store holds {:?} for {:?} and it is offered, but index {} ({:?}) is preselected in {:?}",
                                what, c, typed, sel, cands.get(sel), cands
                            ),
                        ));
                    }
                }
                return Ok(());
            }
            Expect::Nothing => {}
        }
        // L2: learned base + known suffix.
        if let Some((base_c, sfx_bn)) = s.lm.suffix_base(&typed, &self.env.suffix) {
            let joined = learn::joined_form(base_c, sfx_bn);
            match joined {
                Some(j) if cands.iter().any(|c| *c == j) => {
                    let base_c = base_c.to_string();
                    self.stats.evaluations += 1;
                    self.stats.bump("oracle.L2_judged");
                    if cands.get(sel).map(|x| x.as_str()) != Some(j.as_str()) {
                        return Err(Stop::Violation(
                            format!("{}L2-suffix", prefix),
                            format!(
                                "after {}: {:?} = learned base (chosen {:?}) + known suffix; the joined form {:?} is offered but index {} ({:?}) is preselected in {:?}",
                                what, typed, base_c, j, sel, cands.get(sel), cands
                            ),
                        ));
                    }
                }
                Some(_) => self.stats.bump("oracle.L2_joined_form_not_offered"),
                None => self.stats.bump("oracle.L2_joining_rule_unclear"),
            }
        }
        Ok(())
    }

    /// L4: the store on disk is a JSON object of strings.
    fn judge_store_shape(&mut self, what: &str) -> Result<(), Stop> {
        if let Some(b) = self.disk.get(FileId::Store) {
            self.stats.evaluations += 1;
            self.stats.bump("oracle.L4_store_shape_judged");
            if !learn::is_object_of_strings(&b) {
                return Err(Stop::Violation(
                    "L4-store-shape".into(),
                    format!(
                        "after {}: the store on disk is not a JSON object of strings: {:?}",
                        what,
                        String::from_utf8_lossy(&b)
                    ),
                ));
            }
        }
        Ok(())
    }

    /// C12: one key on a fixed host against the reference model.
    fn judge_fixed_key(
        &mut self,
        h: u8,
        key: u16,
        m: u8,
        before: &Obs,
        obs: &Obs,
        what: &str,
    ) -> Result<(), Stop> {
        let (spec, model_ok, model) = {
            let s = self.slots[h as usize].as_ref().unwrap();
            (s.host.spec, s.fe.model_ok, s.fe.model.clone())
        };
        let layout = match self.env.layout(spec.layout) {
            Some(l) => l,
            None => return Ok(()),
        };
        let altgr = m & 2 != 0;
        let value: Option<String> = match self.env.keys.def(key) {
            Some(d) if d.keypad => {
                if spec.has(NUMPAD) {
                    layout.numpad.get(&key).cloned()
                } else {
                    None
                }
            }
            Some(_) => layout.values.get(&(key, altgr)).cloned(),
            None => None,
        };
        let shown = obs.shown_text().to_string();

        // C13 is judged on every reph press from observations alone.
        if self.scenario == Scenario::Reph && value.as_deref() == Some(fixedmodel::REPH)
        {
            let p = before.shown_text().to_string();
            self.judge_reph(&spec, &p, &shown, what)?;
        }

        if self.scenario != Scenario::FixedRules || spec.has(KAR_ORDER) {
            return Ok(());
        }
        if !model_ok {
            // resynchronise on the implementation (after an unspecified step)
            let s = self.slots[h as usize].as_mut().unwrap();
            s.fe.model = shown;
            s.fe.model_ok = true;
            return Ok(());
        }
        let step = match &value {
            None => ModelStep::Determined(model.clone()),
            Some(v) => fixedmodel::apply_value(&model, v, &spec),
        };
        match step {
            ModelStep::Determined(expected) => {
                self.stats.evaluations += 1;
                self.stats.bump("oracle.C12_step_judged");
                if expected != shown {
                    return Err(Stop::Violation(
                        "rule-refinement".into(),
                        format!(
                            "after {}: composed text was {:?}, key value {:?} under [{}] must give {:?} but the engine shows {:?}",
                            what, model, value, spec.describe(), expected, shown
                        ),
                    ));
                }
                self.slots[h as usize].as_mut().unwrap().fe.model = expected;
            }
            ModelStep::Unspecified(why) => {
                self.stats.bump(&format!("unspecified.{}", why));
                self.slots[h as usize].as_mut().unwrap().fe.model = shown;
            }
            ModelStep::OneOf(allowed, why) => {
                self.stats.evaluations += 1;
                self.stats.bump(&format!("oracle.C12_one_of.{}", why));
                if !allowed.contains(&shown) {
                    return Err(Stop::Violation(
                        "rule-refinement".into(),
                        format!(
                            "after {}: composed text was {:?}, key value {:?} under [{}] ({}) may give any of {:?} but the engine shows {:?}",
                            what, model, value, spec.describe(), why, allowed, shown
                        ),
                    ));
                }
                self.slots[h as usize].as_mut().unwrap().fe.model = shown;
            }
            ModelStep::Reph => {
                self.stats.bump("unspecified.reph key (decided by C13)");
                self.slots[h as usize].as_mut().unwrap().fe.model = shown;
            }
        }
        Ok(())
    }

    fn judge_reph(&mut self, spec: &CfgSpec, p: &str, q: &str, what: &str) -> Result<(), Stop> {
        self.stats.evaluations += 1;
        if !spec.has(OLD_REPH) {
            self.stats.bump("oracle.reph_off_judged");
            if q != format!("{}{}", p, fixedmodel::REPH) {
                return Err(Stop::Violation(
                    "reph-off-appends".into(),
                    format!("after {}: old reph off, text {:?} + reph key must give {:?}+reph but shows {:?}", what, p, p, q),
                ));
            }
            return Ok(());
        }
        self.stats.bump("oracle.reph_conservation_judged");
        if p.is_empty() {
            self.stats.bump("probe.reph_on_empty");
        }
        let points = fixedmodel::insertion_points(p, q, fixedmodel::REPH);
        if points.is_empty() {
            return Err(Stop::Violation(
                "reph-conservation".into(),
                format!("after {}: text {:?} became {:?}, which is not {:?} with reph inserted at one position", what, p, q, p),
            ));
        }
        match fixedmodel::reph_placement(p) {
            RephPlacement::At(i) => {
                self.stats.bump("oracle.reph_placement_judged");
                if !points.contains(&i) {
                    let mut expected = p.to_string();
                    expected.insert_str(i, fixedmodel::REPH);
                    return Err(Stop::Violation(
                        "reph-placement".into(),
                        format!("after {}: text {:?} + reph must give {:?} (reph before the final conjunct) but shows {:?}", what, p, expected, q),
                    ));
                }
            }
            RephPlacement::Either(i, j) => {
                self.stats.bump("oracle.reph_placement_judged_two_part_sign");
                if !points.contains(&i) && !points.contains(&j) {
                    return Err(Stop::Violation(
                        "reph-placement".into(),
                        format!("after {}: text {:?} (final syllable with a vowel sign typed as its two parts) + reph must put the reph before the final conjunct or at the end, but shows {:?}", what, p, q),
                    ));
                }
            }
            RephPlacement::NotJudged(why) => {
                self.stats.bump(&format!("unspecified.reph placement: {}", why));
            }
        }
        Ok(())
    }

    // ---------------------------------------------------------------- the step function

    fn resolve_sel(sel: Sel, last: &Obs) -> (u8, bool) {
        // returns (byte, is a valid index for the previously returned list)
        let len = last.list_len();
        match sel {
            Sel::Raw(b) => {
                let valid = match len {
                    Some(l) if l > 0 => (b as usize) < l,
                    _ => b == 0,
                };
                (b, valid)
            }
            Sel::Valid(r) => match len {
                Some(l) if l > 0 => ((r as usize % l).min(255) as u8, true),
                _ => (0, true),
            },
            Sel::Top(k) => match len {
                Some(l) if l > k as usize => (((l - 1 - k as usize).min(255)) as u8, true),
                _ => (0, true),
            },
            Sel::Presel => match (len, last.sel()) {
                (Some(l), Some(s)) if s < l && s < 256 => (s as u8, true),
                (Some(_), Some(s)) => (s.min(255) as u8, false),
                _ => (0, true),
            },
        }
    }

    fn resolve_idx(idx: Idx, last: &Obs) -> Option<(usize, usize, usize)> {
        // returns (index, shown preselection, len)
        let (len, sel) = match &last.kind {
            ObsKind::List { cands, sel, .. } if !cands.is_empty() => (cands.len(), *sel),
            ObsKind::Single(s) if !s.is_empty() => (1, 0),
            _ => return None,
        };
        let sel_c = if sel < len { sel } else { sel % len };
        let i = match idx {
            Idx::Rel(r) => r as usize % len,
            Idx::Presel => sel_c,
            Idx::Other(r) => {
                if len == 1 {
                    sel_c
                } else {
                    (sel_c + 1 + (r as usize % (len - 1))) % len
                }
            }
            Idx::Top(k) => len - 1 - (k as usize).min(len - 1),
        };
        Some((i, sel_c, len))
    }

    fn push_hist(slot: &mut Slot, obs: &Obs) {
        slot.hist.push(obs.clone());
        if slot.hist.len() > 4 {
            slot.hist.remove(0);
        }
    }

    fn do_key(&mut self, op: &Op, h: u8, key: u16, m: u8, sel: Sel) -> Result<(), Stop> {
        let before = match self.slot(h) {
            Some(s) => s.host.last.clone(),
            None => {
                self.skip(op, "dead");
                return Ok(());
            }
        };
        let (byte, premise) = Self::resolve_sel(sel, &before);
        let what = format!("key {} (modifier {}, selection {}) on host {}", self.key_name(key), m, byte, h);
        let had_unflushed = self.disk.has_unflushed();
        let meter = self.meter_start();
        let r = {
            let slot = self.slots[h as usize].as_mut().unwrap();
            let host = &mut slot.host;
            host.key(key, m, byte)
        };
        self.meter_end(meter);
        self.after_host_call(h, had_unflushed);
        let obs = match r {
            Ok(o) => o,
            Err(msg) => {
                // does the reference context die too?
                let twin_also = self.twin_key(h, key, m, byte).map(|r| r.is_err());
                if let Some(false) = twin_also {
                    if matches!(self.scenario, Scenario::SessionReset | Scenario::Reconfigure) {
                        return Err(Stop::Violation(
                            "twin-panic-divergence".into(),
                            format!("{}: the used context panicked ({}) but the reference context did not", what, msg),
                        ));
                    }
                }
                return Err(self.panic_stop(&what, msg));
            }
        };
        // front-end bookkeeping
        let ch = self.env.keys.char_of(key);
        let kp_special = self
            .env
            .keys
            .def(key)
            .map(|d| d.name == "VC_KP_ENTER" || d.name == "VC_KP_EQUALS")
            .unwrap_or(true);
        {
            let slot = self.slots[h as usize].as_mut().unwrap();
            if slot.host.spec.is_phonetic() {
                match ch {
                    Some(c) if !kp_special => slot.fe.typed.push(c),
                    _ => slot.fe.typed_ok = false,
                }
            }
            slot.fe.last_punct = !matches!(ch, Some(c) if c.is_ascii_alphanumeric());
            slot.fe.last_key = Some((key, byte));
            slot.fe.last_was_bs = false;
            Self::push_hist(slot, &obs);
        }
        self.note(|| format!("{} -> {}", what, obs.brief()));
        self.record_state(h, &obs);
        if kp_special {
            self.stats.bump("probe.keypad_enter_or_equals");
        }
        if obs.shown_text().chars().count() >= 32 {
            self.stats.bump("probe.composition_ge_32");
        }

        // lock-step twin
        if let Some(r2) = self.twin_key(h, key, m, byte) {
            let kind = self.slots[h as usize].as_ref().unwrap().twin.as_ref().unwrap().1;
            match r2 {
                Ok(o2) => self.compare_twin(kind, &obs, &o2, &what)?,
                Err(msg) => {
                    if kind == TwinKind::Equal
                        && matches!(self.scenario, Scenario::SessionReset | Scenario::Reconfigure)
                    {
                        return Err(Stop::Violation(
                            "twin-panic-divergence".into(),
                            format!("{}: the reference context panicked ({}) but the used context did not", what, msg),
                        ));
                    }
                    return Err(self.panic_stop(&format!("{} (reference context)", what), msg));
                }
            }
        }

        // scenario oracles
        let phonetic = self.slots[h as usize].as_ref().unwrap().host.spec.is_phonetic();
        match self.scenario {
            Scenario::Wellformed => self.judge_wellformed(h, &obs, premise, &what)?,
            Scenario::SessionReset => self.judge_session_invariants(h, &before, &obs, false, &what)?,
            Scenario::LearnedDurability | Scenario::UserfileFaults => {
                self.judge_learned(h, &obs, &what)?
            }
            Scenario::FixedRules | Scenario::Reph => {
                if !phonetic {
                    self.judge_fixed_key(h, key, m, &before, &obs, &what)?
                }
            }
            _ => {}
        }
        Ok(())
    }

    fn twin_key(&mut self, h: u8, key: u16, m: u8, byte: u8) -> Option<Result<Obs, String>> {
        let slot = self.slots[h as usize].as_mut()?;
        let (t, _) = slot.twin.as_mut()?;
        Some(t.key(key, m, byte))
    }

    fn key_name(&self, key: u16) -> String {
        self.env
            .keys
            .def(key)
            .map(|d| d.name.clone())
            .unwrap_or_else(|| format!("0x{:04X}", key))
    }

    /// Session-flag clauses of C06 that hold on every event.
    fn judge_session_invariants(
        &mut self,
        _h: u8,
        before: &Obs,
        obs: &Obs,
        was_bs: bool,
        what: &str,
    ) -> Result<(), Stop> {
        self.stats.evaluations += 1;
        if obs.any_nonempty_preedit() && !obs.session {
            return Err(Stop::Violation(
                "preedit-implies-session".into(),
                format!("after {}: non-empty pre-edit text [{}] but no ongoing session is reported", what, obs.brief()),
            ));
        }
        if was_bs {
            if !before.session {
                self.stats.bump("oracle.idle_backspace_judged");
                if !obs.is_empty() || obs.session {
                    return Err(Stop::Violation(
                        "idle-backspace".into(),
                        format!("after {} while idle: [{}]", what, obs.brief()),
                    ));
                }
            }
            if obs.is_empty() {
                self.stats.bump("oracle.empty_backspace_judged");
                if obs.session {
                    return Err(Stop::Violation(
                        "idle-after-terminator".into(),
                        format!("after {}: empty suggestion returned but a session is still reported", what),
                    ));
                }
            }
        }
        Ok(())
    }

    fn do_bs(&mut self, op: &Op, h: u8, ctrl: bool) -> Result<(), Stop> {
        let before = match self.slot(h) {
            Some(s) => s.host.last.clone(),
            None => {
                self.skip(op, "dead");
                return Ok(());
            }
        };
        let what = format!("{}backspace on host {}", if ctrl { "ctrl-" } else { "" }, h);
        let had_unflushed = self.disk.has_unflushed();
        let meter = self.meter_start();
        let r = self.slots[h as usize].as_mut().unwrap().host.backspace(ctrl);
        self.meter_end(meter);
        self.after_host_call(h, had_unflushed);
        let obs = match r {
            Ok(o) => o,
            Err(msg) => return Err(self.panic_stop(&what, msg)),
        };
        {
            let slot = self.slots[h as usize].as_mut().unwrap();
            if ctrl {
                // ctrl-backspace on a non-empty composition ends the word
                if !slot.fe.typed.is_empty() || !before.is_empty() || before.session {
                    slot.fe.typed.clear();
                    slot.fe.typed_ok = true;
                    slot.fe.model.clear();
                    slot.fe.model_ok = true;
                }
            } else {
                slot.fe.typed.pop();
                if slot.fe.typed.is_empty() && !obs.session {
                    slot.fe.typed_ok = true;
                }
                if slot.fe.model_ok {
                    slot.fe.model.pop();
                }
            }
            if obs.is_empty() && !obs.session {
                slot.fe.typed.clear();
                slot.fe.typed_ok = true;
            }
            slot.fe.last_punct = false;
            slot.fe.last_key = None;
            slot.fe.last_was_bs = true;
            Self::push_hist(slot, &obs);
        }
        self.note(|| format!("{} -> {}", what, obs.brief()));
        self.record_state(h, &obs);

        let twin_r = {
            let slot = self.slots[h as usize].as_mut().unwrap();
            slot.twin.as_mut().map(|(t, k)| (t.backspace(ctrl), *k))
        };
        if let Some((r2, kind)) = twin_r {
            match r2 {
                Ok(o2) => self.compare_twin(kind, &obs, &o2, &what)?,
                Err(msg) => return Err(self.panic_stop(&format!("{} (reference context)", what), msg)),
            }
        }

        let spec = self.slots[h as usize].as_ref().unwrap().host.spec;
        match self.scenario {
            Scenario::Wellformed => self.judge_wellformed(h, &obs, true, &what)?,
            Scenario::SessionReset => {
                self.judge_session_invariants(h, &before, &obs, true, &what)?;
                if ctrl && (!before.is_empty()) {
                    self.stats.evaluations += 1;
                    self.stats.bump("oracle.idle_after_terminator_judged");
                    if obs.session {
                        return Err(Stop::Violation(
                            "idle-after-terminator".into(),
                            format!("after {} on a non-empty composition: a session is still reported", what),
                        ));
                    }
                }
            }
            Scenario::LearnedDurability | Scenario::UserfileFaults => {
                if !ctrl {
                    self.judge_learned(h, &obs, &what)?
                }
            }
            Scenario::FixedRules => {
                if !spec.is_phonetic() && !spec.has(KAR_ORDER) && !ctrl {
                    let (model_ok, model) = {
                        let s = self.slots[h as usize].as_ref().unwrap();
                        (s.fe.model_ok, s.fe.model.clone())
                    };
                    if model_ok {
                        self.stats.evaluations += 1;
                        self.stats.bump("oracle.C12_backspace_judged");
                        if obs.shown_text() != model {
                            return Err(Stop::Violation(
                                "backspace-one-code-point".into(),
                                format!(
                                    "after {}: text was {:?}, one backspace must leave {:?} but the engine shows {:?}",
                                    what,
                                    before.shown_text(),
                                    model,
                                    obs.shown_text()
                                ),
                            ));
                        }
                    }
                }
            }
            _ => {}
        }
        Ok(())
    }

    fn do_commit(&mut self, op: &Op, h: u8, idx: Idx) -> Result<(), Stop> {
        let last = match self.slot(h) {
            Some(s) => s.host.last.clone(),
            None => {
                self.skip(op, "dead");
                return Ok(());
            }
        };
        if !last.session {
            self.skip(op, "idle");
            return Ok(());
        }
        let (i, shown_sel, len) = match Self::resolve_idx(idx, &last) {
            Some(x) => x,
            None => {
                if self.scenario == Scenario::KarOrderEquiv {
                    // a session without anything to choose from (a sign waiting over an empty
                    // text with the list off): the front-end cannot commit, it ends the word
                    // with a finish request, so that both sides have ended it
                    self.stats.bump("probe.commit_with_nothing_shown_becomes_finish");
                    return self.do_finish(&Op::Finish { h }, h);
                }
                self.skip(op, "nothing_shown");
                return Ok(());
            }
        };
        let what = format!("commit of index {} (of {}, preselected {}) on host {}", i, len, shown_sel, h);
        let store_before = self.disk.get(FileId::Store);
        let had_unflushed = self.disk.has_unflushed();
        let healthy_before = self.disk.healthy();

        // what the front-end knows about this commit
        let (phonetic_learning_cfg, typed, typed_ok, ambiguous) = {
            let s = self.slots[h as usize].as_ref().unwrap();
            (
                s.host.spec.is_phonetic() && s.host.spec.lists(),
                s.fe.typed.clone(),
                s.fe.typed_ok,
                s.fe.last_punct,
            )
        };
        let chosen: Option<String> = match &last.kind {
            ObsKind::List { cands, .. } => cands.get(i).cloned(),
            _ => None,
        };
        let tracks_learning = matches!(
            self.scenario,
            Scenario::LearnedDurability | Scenario::UserfileFaults
        ) && phonetic_learning_cfg;
        let learning = i != shown_sel;
        if tracks_learning && typed_ok {
            // model update happens before the call so that a completed save can snapshot it
            let slot = self.slots[h as usize].as_mut().unwrap();
            let w = learn::loose_word(&typed);
            if ambiguous {
                slot.lm.taint(&w);
            } else if learning {
                if let Some(c) = &chosen {
                    if learn::split_text(&typed).is_some() {
                        slot.lm.learn(&typed, c);
                    } else {
                        slot.lm.taint(&w);
                    }
                }
            }
        } else if tracks_learning {
            let slot = self.slots[h as usize].as_mut().unwrap();
            let w = learn::loose_word(&typed);
            slot.lm.taint(&w);
        }

        let meter = self.meter_start();
        let r = self.slots[h as usize].as_mut().unwrap().host.commit(i);
        self.meter_end(meter);
        let outcomes = self.after_host_call(h, had_unflushed);
        let session_after = match r {
            Ok(s) => s,
            Err(msg) => return Err(self.panic_stop(&what, msg)),
        };
        self.note(|| format!("{} -> session={} saves={:?}", what, session_after, outcomes));
        self.digest = fnv_add(self.digest, &[b'c', h, session_after as u8, (i & 0xff) as u8]);
        self.obs_digest = fnv_add(self.obs_digest, &[b'c', h, session_after as u8, (i & 0xff) as u8]);
        let host_alive = self.slots[h as usize].as_ref().map(|s| s.host.alive()).unwrap_or(false);
        if let Some(slot) = self.slots[h as usize].as_mut() {
            slot.fe.reset();
            Self::push_hist(slot, &Obs { session: session_after, ..Obs::idle_empty() });
        }
        if !outcomes.is_empty() {
            self.stats.bump("probe.learning_commit_saved_or_tried");
        }
        if self.scenario != Scenario::UserfileFaults {
            // the fault-injecting configuration of the history scenarios: a save that failed
            let failed = outcomes.iter().any(|o| !matches!(o, WriteOutcome::Complete));
            let complete = outcomes.iter().any(|o| matches!(o, WriteOutcome::Complete));
            if failed {
                self.stats.bump("fault.save_failed_in_history_scenario");
            }
            if let Some(slot) = self.slots[h as usize].as_mut() {
                if failed {
                    // the context knows a choice the disk does not hold: a reference context
                    // over the disk is no longer "the same learned selections" (C06)
                    slot.unsaved = true;
                    if matches!(slot.twin, Some((_, TwinKind::Equal))) {
                        slot.twin = None;
                    }
                } else if complete {
                    // a complete save writes the whole map
                    slot.unsaved = false;
                }
            }
        }

        // twin
        let twin_r = {
            match self.slots[h as usize].as_mut() {
                Some(slot) if host_alive => slot.twin.as_mut().map(|(t, k)| (t.commit(i), *k)),
                _ => None,
            }
        };
        if let Some((r2, kind)) = twin_r {
            match r2 {
                Ok(s2) => {
                    if kind == TwinKind::Equal && matches!(self.scenario, Scenario::SessionReset | Scenario::Reconfigure) {
                        // Both contexts hold what the disk held at the fork plus the same
                        // commits since, and every learning commit saves the whole map: the
                        // two stores must hold the same entries.
                        let a = self.disk.get(FileId::Store).as_deref().and_then(learn::parse_store);
                        let b = self.slots[h as usize]
                            .as_ref()
                            .and_then(|s| s.twin.as_ref())
                            .and_then(|(t, _)| t.disk.get(FileId::Store))
                            .as_deref()
                            .and_then(learn::parse_store);
                        self.stats.evaluations += 1;
                        self.stats.bump("oracle.twin_store_compared");
                        if a != b {
                            return Err(Stop::Violation(
                                "twin-store-equal".into(),
                                format!("after {}: the used context's store holds {:?} but the reference context's store holds {:?}", what, a, b),
                            ));
                        }
                    }
                    if kind == TwinKind::Equal {
                        self.stats.evaluations += 1;
                        if s2 != session_after {
                            return Err(Stop::Violation(
                                if self.scenario == Scenario::UserfileFaults { "F2-unreadable-as-absent".into() } else { "twin-equal".into() },
                                format!("after {}: session flag {} in the used context, {} in the reference context", what, session_after, s2),
                            ));
                        }
                    }
                }
                Err(msg) => return Err(self.panic_stop(&format!("{} (reference context)", what), msg)),
            }
        }

        match self.scenario {
            Scenario::SessionReset => {
                self.stats.evaluations += 1;
                self.stats.bump("oracle.idle_after_terminator_judged");
                if session_after {
                    return Err(Stop::Violation(
                        "idle-after-terminator".into(),
                        format!("after {}: a session is still reported", what),
                    ));
                }
            }
            Scenario::LearnedDurability => {
                self.judge_store_shape(&what)?;
                let list_off = {
                    let sp = self.slots[h as usize].as_ref().map(|s| s.host.spec);
                    matches!(sp, Some(sp) if sp.is_phonetic() && !sp.lists())
                };
                if list_off {
                    self.stats.bump("oracle.L3_judged_list_off");
                }
                if (tracks_learning && typed_ok && !ambiguous && !learning) || list_off {
                    // L3: committing the preselected candidate changes nothing (with the list
                    // off the one string shown is the only, hence the preselected, candidate).
                    self.stats.evaluations += 1;
                    self.stats.bump("oracle.L3_judged");
                    let a = store_before.as_deref().and_then(learn::parse_store);
                    let b = self.disk.get(FileId::Store).as_deref().and_then(learn::parse_store);
                    if a != b {
                        return Err(Stop::Violation(
                            "L3-preselected-commit-changes-nothing".into(),
                            format!("after {} for text {:?}: the store changed from {:?} to {:?}", what, typed, a, b),
                        ));
                    }
                }
            }
            Scenario::UserfileFaults => {
                // F3: a failed save must not end the session abnormally.
                let failed = outcomes.iter().any(|o| !matches!(o, WriteOutcome::Complete | WriteOutcome::TornByCrash(_) | WriteOutcome::CrashedBesideStore));
                if failed && host_alive {
                    self.stats.evaluations += 1;
                    self.stats.bump("oracle.F3_failed_save_judged");
                    if session_after {
                        return Err(Stop::Violation(
                            "F3-failed-save-nonfatal".into(),
                            format!("after {} with a failing save: a session is still reported", what),
                        ));
                    }
                    // at most that one choice is lost: keep the others, un-know this one
                    if let Some(slot) = self.slots[h as usize].as_mut() {
                        let w = learn::loose_word(&typed);
                        slot.lm.taint(&w);
                    }
                }
                // F4: once faults have stopped, one learning commit restores a loadable
                // store that holds the choice.
                // (judged on what a new context sees, not on whether a write was observed: a
                // context that has stopped saving altogether fails here too)
                let complete = outcomes.iter().any(|o| matches!(o, WriteOutcome::Complete));
                let acknowledged_choice = tracks_learning && typed_ok && !ambiguous && learning && chosen.is_some();
                if (complete || acknowledged_choice) && healthy_before && self.disk.healthy() && host_alive {
                    if !complete {
                        self.stats.bump("probe.learning_commit_on_a_healthy_disk_without_a_save");
                    }
                    self.judge_recovery(h, &typed, typed_ok && !ambiguous && learning, chosen.as_deref(), &what)?;
                }
            }
            _ => {}
        }
        Ok(())
    }

    /// F4 of C10.
    fn judge_recovery(
        &mut self,
        h: u8,
        typed: &str,
        known_choice: bool,
        chosen: Option<&str>,
        what: &str,
    ) -> Result<(), Stop> {
        self.stats.evaluations += 1;
        self.stats.bump("oracle.F4_recovery_judged");
        let store = self.disk.get(FileId::Store);
        match &store {
            Some(b) if learn::is_object_of_strings(b) => {}
            other => {
                return Err(Stop::Violation(
                    "F4-recovery-store-loadable".into(),
                    format!(
                        "after {} on a healthy disk: the store is {:?}",
                        what,
                        other.as_ref().map(|b| String::from_utf8_lossy(b).to_string())
                    ),
                ))
            }
        }
        let spec = self.slots[h as usize].as_ref().unwrap().host.spec;
        let last_alnum = typed.chars().last().map(|c| c.is_ascii_alphanumeric()).unwrap_or(false);
        if !(known_choice && last_alnum && learn::split_text(typed).is_some()) {
            return Ok(());
        }
        let chosen = match chosen {
            Some(c) => c,
            None => return Ok(()),
        };
        // a brand-new context over a copy of the disk must preselect the choice
        let td = self.disk.fork();
        let mut t = match Host::spawn(spec, td, &self.env.paths) {
            Ok(t) => t,
            Err(msg) => return Err(self.panic_stop("creating a context after recovery", msg)),
        };
        let mut last = Obs::idle_empty();
        for c in typed.chars() {
            let code = match self.env.keys.code_for(c) {
                Some(k) => k,
                None => return Ok(()),
            };
            let sel = last.sel().unwrap_or(0).min(255) as u8;
            last = match t.key(code, 0, sel) {
                Ok(o) => o,
                Err(msg) => return Err(self.panic_stop("typing after recovery", msg)),
            };
        }
        self.stats.bump("oracle.F4_new_context_judged");
        if let ObsKind::List { cands, sel, .. } = &last.kind {
            // (the new context may have loaded a newer auto-correct list than the live one
            // had, so the choice is only demanded if it is offered there at all)
            if !cands.iter().any(|c| c == chosen) {
                self.stats.bump("oracle.F4_choice_not_offered_in_new_context");
            } else if cands.get(*sel).map(|s| s.as_str()) != Some(chosen) {
                return Err(Stop::Violation(
                    "F4-recovery-choice-durable".into(),
                    format!(
                        "after {} on a healthy disk: a new context typing {:?} preselects index {} ({:?}) instead of {:?}; store: {:?}",
                        what,
                        typed,
                        sel,
                        cands.get(*sel),
                        chosen,
                        store.map(|b| String::from_utf8_lossy(&b).to_string())
                    ),
                ));
            }
        }
        Ok(())
    }

    fn do_finish(&mut self, op: &Op, h: u8) -> Result<(), Stop> {
        if self.slot(h).is_none() {
            self.skip(op, "dead");
            return Ok(());
        }
        let what = format!("finish on host {}", h);
        let r = self.slots[h as usize].as_mut().unwrap().host.finish();
        let session_after = match r {
            Ok(s) => s,
            Err(msg) => return Err(self.panic_stop(&what, msg)),
        };
        self.note(|| format!("{} -> session={}", what, session_after));
        self.digest = fnv_add(self.digest, &[b'f', h, session_after as u8]);
        {
            let slot = self.slots[h as usize].as_mut().unwrap();
            slot.fe.reset();
            Self::push_hist(slot, &Obs { session: session_after, ..Obs::idle_empty() });
        }
        let twin_r = {
            let slot = self.slots[h as usize].as_mut().unwrap();
            slot.twin.as_mut().map(|(t, k)| (t.finish(), *k))
        };
        if let Some((r2, kind)) = twin_r {
            match r2 {
                Ok(s2) => {
                    if kind == TwinKind::Equal && s2 != session_after {
                        return Err(Stop::Violation(
                            "twin-equal".into(),
                            format!("after {}: session flag {} in the used context, {} in the reference context", what, session_after, s2),
                        ));
                    }
                }
                Err(msg) => return Err(self.panic_stop(&format!("{} (reference context)", what), msg)),
            }
        }
        if self.scenario == Scenario::SessionReset {
            self.stats.evaluations += 1;
            self.stats.bump("oracle.idle_after_terminator_judged");
            if session_after {
                return Err(Stop::Violation(
                    "idle-after-terminator".into(),
                    format!("after {}: a session is still reported", what),
                ));
            }
        }
        Ok(())
    }

    fn do_update(&mut self, op: &Op, h: u8, cfg: CfgSpec) -> Result<(), Stop> {
        if self.slot(h).is_none() {
            self.skip(op, "dead");
            return Ok(());
        }
        let what = format!("update_engine({}) on host {}", cfg.describe(), h);
        let idle = {
            let slot = self.slots[h as usize].as_mut().unwrap();
            match slot.host.session() {
                Ok(s) => !s,
                Err(msg) => return Err(self.panic_stop("ongoing_input_session", msg)),
            }
        };
        let mid_word = !idle;
        if mid_word && self.scenario != Scenario::UserfileFaults {
            self.skip(op, "not_idle");
            return Ok(());
        }
        if mid_word {
            // C10 only: "re-loading the configuration keeps working" has no idle premise.
            // Nothing but survival (F1) is judged for what follows until the word ends.
            self.stats.bump("probe.update_in_the_middle_of_a_word");
        }
        if self.scenario == Scenario::KarOrderEquiv {
            // C14's premise: both contexts have the same settings but the one under test, so
            // an update is applied to both or to neither
            let mut all_idle = true;
            for i in 0..self.slots.len() {
                if let Some(s) = self.slots[i].as_mut() {
                    if s.host.alive() && !matches!(s.host.session(), Ok(false)) {
                        all_idle = false;
                    }
                }
            }
            if !all_idle {
                self.skip(op, "pair_not_idle");
                return Ok(());
            }
        }
        let old = self.slots[h as usize].as_ref().unwrap().host.spec;
        if old.data != cfg.data {
            // update_engine's contract (and C11's statement): same data directory
            self.skip(op, "different_data_dir");
            return Ok(());
        }
        // C11: a same-layout update after the fork is an event like any other and goes to
        // the reference context too; any other update ends the lock-step pair (a new
        // reference context is forked by the next Fork op)
        let keep_twin = matches!(self.scenario, Scenario::Reconfigure | Scenario::SessionReset)
            && old.layout == cfg.layout
            && matches!(self.slots[h as usize].as_ref().unwrap().twin, Some((_, TwinKind::Equal)));
        let r = {
            let slot = self.slots[h as usize].as_mut().unwrap();
            if !keep_twin {
                slot.twin = None;
            }
            slot.host.update(cfg, &self.env.paths)
        };
        let _ = self.disk.drain_writes();
        if let Err(msg) = r {
            return Err(self.panic_stop(&what, msg));
        }
        if keep_twin {
            let paths = &self.env.paths;
            let r2 = {
                let slot = self.slots[h as usize].as_mut().unwrap();
                slot.twin.as_mut().map(|(t, _)| t.update(cfg, paths))
            };
            if let Some(Err(msg)) = r2 {
                return Err(self.panic_stop(&format!("{} (reference context)", what), msg));
            }
            self.stats.bump("probe.update_in_lock_step");
            self.note(|| format!("{} (also applied to the reference context)", what));
            let epoch = self.ac_epoch;
            let slot = self.slots[h as usize].as_mut().unwrap();
            slot.fe.reset();
            slot.ac_seen = epoch;
            return Ok(());
        }
        self.note(|| what.clone());
        self.digest = fnv_add(self.digest, &[b'u', h]);
        self.slots[h as usize].as_mut().unwrap().ac_seen = self.ac_epoch;
        self.stats.bump(match (old.layout, cfg.layout) {
            (a, b) if a == b => "probe.update_same_layout",
            (LayoutKind::Phonetic, _) => "probe.update_phonetic_to_fixed",
            (_, LayoutKind::Phonetic) => "probe.update_fixed_to_phonetic",
            _ => "probe.update_fixed_to_fixed",
        });
        let mut slot = self.slots[h as usize].take().unwrap();
        if mid_word {
            // the front-end's idea of the composition is no longer reliable
            slot.fe.typed_ok = false;
            slot.fe.model_ok = false;
            let w = learn::loose_word(&slot.fe.typed);
            slot.lm.taint(&w);
        } else {
            slot.fe.reset();
        }
        if self.scenario == Scenario::UserfileFaults && old.layout != cfg.layout {
            // a layout change replaces the method object: the new one knows what the disk holds
            slot.lm = self.durable.clone().unwrap_or_default();
        }
        let r = self.attach_auto_twin(&mut slot);
        if self.scenario == Scenario::UserfileFaults {
            // a reload over an unreadable list only has to survive (F1); no twin.
            slot.twin = None;
        }
        self.slots[h as usize] = Some(slot);
        r
    }

    fn do_fork(&mut self, op: &Op, h: u8) -> Result<(), Stop> {
        if self.slot(h).is_none() {
            self.skip(op, "dead");
            return Ok(());
        }
        let idle = {
            let slot = self.slots[h as usize].as_mut().unwrap();
            match slot.host.session() {
                Ok(s) => !s,
                Err(msg) => return Err(self.panic_stop("ongoing_input_session", msg)),
            }
        };
        if !idle {
            self.skip(op, "not_idle");
            return Ok(());
        }
        if self.slots[h as usize].as_ref().unwrap().unsaved {
            self.skip(op, "store_not_saved");
            return Ok(());
        }
        if self.scenario == Scenario::Reconfigure && self.slots[h as usize].as_ref().unwrap().ac_seen != self.ac_epoch {
            // C11's premise: the context has been re-configured after the last change of the
            // user's auto-correct list (a sub-history without that update is not comparable)
            self.skip(op, "list_changed_after_last_update");
            return Ok(());
        }
        let spec = self.slots[h as usize].as_ref().unwrap().host.spec;
        let td = self.disk.fork();
        match Host::spawn(spec, td, &self.env.paths) {
            Ok(t) => {
                self.slots[h as usize].as_mut().unwrap().twin = Some((t, TwinKind::Equal));
                self.stats.bump("probe.twin_forked");
                self.note(|| format!("fork: new reference context for host {} with {}", h, spec.describe()));
                Ok(())
            }
            Err(msg) => Err(self.panic_stop("creating the reference context", msg)),
        }
    }

    fn do_drain(&mut self, op: &Op, h: u8) -> Result<(), Stop> {
        let (last, typed_len, phonetic) = match self.slot(h) {
            Some(s) => (s.host.last.clone(), s.fe.typed.chars().count(), s.host.spec.is_phonetic()),
            None => {
                self.skip(op, "dead");
                return Ok(());
            }
        };
        let bound = if phonetic {
            typed_len.max(last.shown_text().chars().count()) + 1
        } else {
            last.shown_text().chars().count() + 1
        };
        let mut n = 0usize;
        loop {
            let session = {
                let slot = self.slots[h as usize].as_mut().unwrap();
                match slot.host.session() {
                    Ok(s) => s,
                    Err(msg) => return Err(self.panic_stop("ongoing_input_session", msg)),
                }
            };
            if !session {
                break;
            }
            if n >= bound {
                if self.scenario == Scenario::SessionReset {
                    return Err(Stop::Violation(
                        "backspace-liveness".into(),
                        format!("host {}: {} plain backspaces from [{}] did not reach the idle state", h, n, last.brief()),
                    ));
                }
                break;
            }
            self.do_bs(&Op::Bs { h, ctrl: false }, h, false)?;
            n += 1;
        }
        self.stats.evaluations += 1;
        self.stats.bump("oracle.drain_liveness_judged");
        Ok(())
    }

    fn do_set_file(&mut self, file: FileId, st: &FileSt, mt: Mt) {
        // moved aside / moved back: bytes and modification time travel with the file
        if matches!(st, FileSt::MoveAside | FileSt::MoveBack) {
            self.drop_fault_twins();
            let ix = if file == FileId::Store { 0 } else { 1 };
            let present = self.disk.get(file);
            match st {
                FileSt::MoveAside => {
                    if let (Some(bytes), Some(t)) = (present, self.disk.mtime(file)) {
                        self.aside[ix] = Some((bytes, t));
                        self.disk.put(file, None, None);
                        self.stats.bump(&format!("fault.file_moved_aside.{:?}", file));
                    } else {
                        return;
                    }
                }
                _ => {
                    if present.is_some() {
                        return;
                    }
                    match self.aside[ix].take() {
                        Some((bytes, t)) => {
                            self.disk.put(file, Some(bytes), Some(t));
                            self.stats.bump(&format!("fault.file_moved_back.{:?}", file));
                        }
                        None => return,
                    }
                }
            }
            if file == FileId::Autocorrect {
                self.ac_epoch += 1;
                if self.scenario == Scenario::Reconfigure {
                    self.clock_fault = Some("autocorrect_deleted");
                }
            }
            if file == FileId::Store {
                self.durable = None;
                self.durable_prev = None;
                self.refresh_store_fp();
            }
            self.note(|| format!("{:?} {}", file, if matches!(st, FileSt::MoveAside) { "moved aside" } else { "moved back (same bytes, same modification time)" }));
            self.digest = fnv_add(self.digest, &[b'm', ix as u8, matches!(st, FileSt::MoveAside) as u8]);
            return;
        }

        self.drop_fault_twins();
        self.disk.advance(1);
        let cur = self.disk.get(file);
        let prev_mtime = self.disk.mtime(file);
        let bytes: Option<Vec<u8>> = match st {
            FileSt::Absent => None,
            FileSt::MoveAside | FileSt::MoveBack => unreachable!("handled above"),
            FileSt::Text(s) => Some(s.as_bytes().to_vec()),
            FileSt::Hex(s) => Some(hex_decode(s)),
            FileSt::Truncate(k) => cur.as_ref().map(|b| {
                let k = *k as usize % (b.len() + 1);
                b[..k].to_vec()
            }),
            FileSt::BitFlip(pos, mask) => cur.as_ref().map(|b| {
                let mut b = b.clone();
                if !b.is_empty() {
                    let p = *pos as usize % b.len();
                    b[p] ^= if *mask == 0 { 1 } else { *mask };
                }
                b
            }),
        };
        let mtime = match mt {
            Mt::Now => None,
            Mt::Tie => prev_mtime,
            Mt::Back(dt) => prev_mtime.map(|t| t.saturating_sub(dt)),
            Mt::Ahead(dt) => Some(self.disk.now().saturating_add(dt)),
        };
        let kind = match st {
            FileSt::Absent => "absent",
            FileSt::MoveAside | FileSt::MoveBack => unreachable!("handled above"),
            FileSt::Text(s) if s.is_empty() => "empty",
            FileSt::Text(_) | FileSt::Hex(_) => "document",
            FileSt::Truncate(_) => "truncate",
            FileSt::BitFlip(..) => "bitflip",
        };
        self.stats.bump(&format!("fault.file_{}.{:?}", kind, file));
        match mt {
            Mt::Tie => self.stats.bump("fault.mtime_tie"),
            Mt::Back(_) => self.stats.bump("fault.mtime_regress"),
            Mt::Ahead(_) => self.stats.bump("fault.mtime_in_the_future"),
            Mt::Now => {}
        }
        if file == FileId::Autocorrect && cur.is_some() && bytes.is_some() {
            // whatever the policy: an edit whose stamp is not later than the stamp of the file
            // it replaces (also: stamped now, or less far ahead, after one stamped in the
            // future) is, for riti, a file whose time did not advance
            if let Some(prev) = prev_mtime {
                let effective = mtime.unwrap_or_else(|| self.disk.now());
                if effective < prev {
                    self.stats.bump("fault.mtime_not_advanced.regress");
                    self.clock_fault = Some("mtime_regress");
                } else if effective == prev {
                    self.stats.bump("fault.mtime_not_advanced.tie");
                    self.clock_fault = Some("mtime_tie");
                }
            }
        }
        if file == FileId::Autocorrect {
            self.ac_epoch += 1;
            match (mt, st, &cur) {
                (Mt::Tie, _, Some(_)) => self.clock_fault = Some("mtime_tie"),
                (Mt::Back(_), _, Some(_)) => self.clock_fault = Some("mtime_regress"),
                (_, FileSt::Absent, Some(_)) => self.clock_fault = Some("autocorrect_deleted"),
                _ => {}
            }
        }
        self.note(|| {
            format!(
                "{:?} := {:?} (mtime {:?})",
                file,
                bytes.as_ref().map(|b| String::from_utf8_lossy(b).to_string()),
                mt
            )
        });
        self.disk.put(file, bytes.clone(), mtime);
        self.digest = fnv_add(self.digest, b"setfile");
        if let Some(b) = &bytes {
            self.digest = fnv_add(self.digest, b);
        }
        if file == FileId::Store {
            self.durable = match &bytes {
                None => Some(LearnModel::default()),
                Some(b) => LearnModel::from_store_json(b).or(Some(LearnModel::default())),
            };
            self.durable_prev = None;
            self.refresh_store_fp();
        }
    }

    fn step(&mut self, op: &Op) -> Result<(), Stop> {
        self.stats.ops += 1;
        self.stats.bump(&format!("op.{}", op.kind()));
        self.inter = fnv_add(self.inter, &[op.host().unwrap_or(255), op.kind_code()]);
        self.digest = fnv_add(self.digest, &[op.kind_code()]);
        if self.scenario == Scenario::Crashfree && op.host().is_some() {
            // every call is judged: it must return normally and within the time bound
            self.stats.evaluations += 1;
        }
        match op {
            Op::Key { h, key, m, sel } => self.do_key(op, *h, *key, *m, *sel),
            Op::Bs { h, ctrl } => self.do_bs(op, *h, *ctrl),
            Op::Commit { h, idx } => self.do_commit(op, *h, *idx),
            Op::Finish { h } => self.do_finish(op, *h),
            Op::Update { h, cfg } => self.do_update(op, *h, *cfg),
            Op::Spawn { h, cfg } => {
                if (*h as usize) >= self.slots.len() {
                    return Ok(());
                }
                self.slots[*h as usize] = None;
                self.note(|| format!("spawn host {} with {}", h, cfg.describe()));
                self.spawn_slot(*h, *cfg, &format!("creating a context ({}) for host {}", cfg.describe(), h))
            }
            Op::Restart { h } => {
                let spec = match self.slots.get(*h as usize).and_then(|s| s.as_ref()) {
                    Some(s) => s.host.spec,
                    None => {
                        self.skip(op, "never_spawned");
                        return Ok(());
                    }
                };
                let lm = self.slots[*h as usize].as_ref().map(|s| s.lm.clone()).unwrap_or_default();
                self.slots[*h as usize] = None;
                self.note(|| format!("restart host {}", h));
                self.stats.bump("fault.process_restart");
                self.spawn_slot(*h, spec, &format!("re-creating the context of host {} after a restart", h))?;
                if self.scenario == Scenario::LearnedDurability {
                    // durability: everything acknowledged survives the restart
                    self.slots[*h as usize].as_mut().unwrap().lm = lm;
                }
                Ok(())
            }
            Op::Kill { h } => {
                if let Some(Some(s)) = self.slots.get_mut(*h as usize) {
                    s.host.kill();
                    s.twin = None;
                    s.fe.reset();
                    self.stats.bump("fault.process_kill");
                }
                Ok(())
            }
            Op::Fork { h } => self.do_fork(op, *h),
            Op::Drain { h } => self.do_drain(op, *h),
            Op::Clock { dt } => {
                let had = self.disk.has_unflushed();
                self.disk.advance(*dt);
                for s in self.slots.iter().flatten() {
                    if let Some((t, _)) = &s.twin {
                        t.disk.advance(*dt);
                    }
                }
                if had && !self.disk.has_unflushed() {
                    self.durable_prev = None;
                    self.stats.bump("probe.page_cache_flushed");
                }
                self.stats.sim_time_ns += *dt;
                Ok(())
            }
            Op::SetFile { file, st, mt } => {
                self.do_set_file(*file, st, *mt);
                Ok(())
            }
            Op::SetDir { st } => {
                self.drop_fault_twins();
                if self.scenario == Scenario::SessionReset {
                    // a context that is alive may know what the directory no longer holds
                    for s in self.slots.iter_mut().flatten() {
                        s.twin = None;
                        s.unsaved = true;
                    }
                }
                self.disk.set_dir(*st);
                self.stats.bump(&format!("fault.dir_{:?}", st));
                if *st == DirState::Missing {
                    self.durable = Some(LearnModel::default());
                    self.durable_prev = None;
                }
                self.refresh_store_fp();
                self.note(|| format!("user-data directory := {:?}", st));
                Ok(())
            }
            Op::DenyOpen { file, on } => {
                self.drop_fault_twins();
                self.disk.set_deny_open(*file, *on);
                if *on {
                    self.stats.bump(&format!("fault.open_denied.{:?}", file));
                }
                Ok(())
            }
            Op::Arm { fault } => {
                self.drop_fault_twins();
                self.disk.arm(Some(*fault));
                self.stats.bump("fault.armed");
                self.note(|| format!("armed {:?}", fault));
                Ok(())
            }
            Op::Heal => {
                self.drop_fault_twins();
                self.disk.arm(None);
                self.disk.set_deny_open(FileId::Store, false);
                self.disk.set_deny_open(FileId::Autocorrect, false);
                if self.disk.dir() != DirState::Present {
                    self.disk.set_dir(DirState::Present);
                }
                self.stats.bump("probe.heal");
                self.note(|| "heal".to_string());
                Ok(())
            }
            Op::PowerLoss => {
                self.drop_fault_twins();
                for s in self.slots.iter_mut().flatten() {
                    s.host.kill();
                    s.twin = None;
                    s.fe.reset();
                }
                let reverted = self.disk.power_loss();
                self.stats.bump("fault.power_loss");
                if reverted > 0 {
                    self.stats.bump("fault.power_loss_reverted_file");
                    if let Some(prev) = self.durable_prev.take() {
                        self.durable = prev;
                    } else {
                        self.durable = None;
                    }
                }
                self.durable_prev = None;
                self.refresh_store_fp();
                self.note(|| format!("power loss ({} file(s) reverted)", reverted));
                Ok(())
            }
            Op::Mark { tag } => self.do_mark(*tag),
        }
    }

    /// C14 comparison points.
    fn do_mark(&mut self, tag: u8) -> Result<(), Stop> {
        if self.scenario != Scenario::KarOrderEquiv {
            return Ok(());
        }
        let (u, t) = match (&self.slots[0], &self.slots[1]) {
            (Some(u), Some(t)) if u.host.alive() && t.host.alive() => (u, t),
            _ => return Ok(()),
        };
        match tag {
            1 => {
                // end of a syllable: both orders must have produced the same text
                let a = u.host.last.shown_text().to_string();
                let b = t.host.last.shown_text().to_string();
                let (sa, sb) = (u.host.last.session, t.host.last.session);
                self.stats.evaluations += 1;
                self.stats.bump("oracle.C14_syllable_compared");
                if a == b && sa != sb {
                    return Err(Stop::Violation(
                        "order-equivalence-session".into(),
                        format!("after the same syllables both contexts show {:?}, but the session flag is {} with the option off and {} with it on (a sign left waiting?)", a, sa, sb),
                    ));
                }
                if a != b {
                    return Err(Stop::Violation(
                        "order-equivalence".into(),
                        format!("Unicode order with the option off gives {:?}, typewriter order with the option on gives {:?}", a, b),
                    ));
                }
                // ... and offer it as the same first candidate (what a commit would take)
                if let (Some(ca), Some(cb)) = (u.host.last.first_candidate(), t.host.last.first_candidate()) {
                    self.stats.evaluations += 1;
                    if ca != cb {
                        return Err(Stop::Violation(
                            "order-equivalence".into(),
                            format!("both contexts compose {:?}, but the first candidate (text, pre-edit text) is {:?} with the option off and {:?} with it on", a, ca, cb),
                        ));
                    }
                }
            }
            4 => {
                // in the middle of a conjunct: both sides have typed "consonant + hasanta", T
                // with the left-standing sign first, which is waiting again. Nothing T shows may
                // differ from what U shows: the waiting sign is not shown
                let a = u.host.last.shown_text().to_string();
                let b = t.host.last.shown_text().to_string();
                self.stats.evaluations += 1;
                self.stats.bump("oracle.C14_midway_compared");
                if a != b {
                    return Err(Stop::Violation(
                        "pending-sign-not-shown".into(),
                        format!("after consonant + hasanta Unicode order shows {:?}, typewriter order (sign typed first, waiting again) shows {:?}", a, b),
                    ));
                }
                if let (Some(ca), Some(cb)) = (u.host.last.first_candidate(), t.host.last.first_candidate()) {
                    if ca != cb {
                        return Err(Stop::Violation(
                            "pending-sign-not-shown".into(),
                            format!("after consonant + hasanta both contexts compose {:?}, but the first candidate (text, pre-edit text) is {:?} with the option off and {:?} with a sign waiting", a, ca, cb),
                        ));
                    }
                }
                if !t.host.last.session {
                    return Err(Stop::Violation(
                        "pending-sign-is-session".into(),
                        format!("a sign is waiting (text {:?}) but no ongoing session is reported", b),
                    ));
                }
            }
            2 => {
                // a left-standing sign was just pressed on T and waits for its consonant
                let n = t.hist.len();
                if n >= 2 {
                    let now = &t.hist[n - 1];
                    let before = &t.hist[n - 2];
                    self.stats.evaluations += 1;
                    self.stats.bump("oracle.C14_pending_judged");
                    if now.shown_text() != before.shown_text() {
                        return Err(Stop::Violation(
                            "pending-sign-not-shown".into(),
                            format!("a waiting sign changed the shown text from {:?} to {:?}", before.shown_text(), now.shown_text()),
                        ));
                    }
                    if !now.session {
                        return Err(Stop::Violation(
                            "pending-sign-is-session".into(),
                            format!("a sign is waiting (text {:?}) but no ongoing session is reported", now.shown_text()),
                        ));
                    }
                }
            }
            3 => {
                // ... and one backspace discarded it
                let n = t.hist.len();
                if n >= 3 {
                    let now = &t.hist[n - 1];
                    let before_sign = &t.hist[n - 3];
                    self.stats.evaluations += 1;
                    self.stats.bump("oracle.C14_pending_backspace_judged");
                    if now.shown_text() != before_sign.shown_text() || now.session != before_sign.session {
                        return Err(Stop::Violation(
                            "pending-sign-one-backspace".into(),
                            format!(
                                "before the sign: text {:?} session {}; after sign + one backspace: text {:?} session {}",
                                before_sign.shown_text(),
                                before_sign.session,
                                now.shown_text(),
                                now.session
                            ),
                        ));
                    }
                }
            }
            _ => {}
        }
        Ok(())
    }

    /// C05: over the recorded history, every execution that ends with the same surviving
    /// text and the same kind of final event must show the same suggestion as host 0.
    fn judge_history_independence(&mut self) -> Result<(), Stop> {
        if !self.disk.is_mirror() && self.disk.counts().2 > 0 {
            return Err(Stop::Inconclusive("the learned store was written during the run (premise: store held fixed)".into()));
        }
        // premise: every compared context has loaded the current version of the user's
        // auto-correct list (a sub-history without the re-load is not comparable)
        let epoch = self.ac_epoch;
        if self.aside[1].is_some() {
            // the list is still away: a context that loaded it earlier legitimately keeps it
            // (a deleted file is not an edit, see C11); only "away and back" is judged
            return Ok(());
        }
        let reference = match &self.slots[0] {
            Some(s) if s.host.alive() && s.fe.typed_ok && !s.fe.typed.is_empty() && s.ac_seen == epoch => s,
            _ => return Ok(()),
        };
        let ref_typed = reference.fe.typed.clone();
        let ref_obs = reference.host.last.clone();
        let ref_key = reference.fe.last_key;
        let ref_bs = reference.fe.last_was_bs;
        let ref_spec = reference.host.spec;
        let last_alnum = ref_typed.chars().last().map(|c| c.is_ascii_alphanumeric()).unwrap_or(false);
        let mut compared = 0;
        for i in 1..4usize {
            let s = match &self.slots[i] {
                Some(s) if s.host.alive() => s,
                _ => continue,
            };
            if s.host.spec != ref_spec || !s.fe.typed_ok || s.fe.typed != ref_typed || s.ac_seen != epoch {
                self.stats.bump("oracle.C05_execution_not_comparable");
                continue;
            }
            let same_event = match (ref_key, s.fe.last_key) {
                (Some(a), Some(b)) => a == b,
                (None, None) => ref_bs && s.fe.last_was_bs,
                _ => false,
            };
            let mixed_ok = (ref_key.is_some() && s.fe.last_was_bs) || (ref_bs && s.fe.last_key.is_some());
            let o = &s.host.last;
            let equal = if same_event {
                *o == ref_obs
            } else if mixed_ok {
                if last_alnum {
                    *o == ref_obs
                } else {
                    // the caller's byte may legitimately decide the index after punctuation
                    match (&o.kind, &ref_obs.kind) {
                        (ObsKind::List { aux: a1, cands: c1, .. }, ObsKind::List { aux: a2, cands: c2, .. }) => {
                            a1 == a2 && c1 == c2 && o.pre == ref_obs.pre && o.session == ref_obs.session
                        }
                        _ => *o == ref_obs,
                    }
                }
            } else {
                self.stats.bump("oracle.C05_execution_not_comparable");
                continue;
            };
            compared += 1;
            self.stats.evaluations += 1;
            self.stats.bump("oracle.C05_execution_compared");
            if !equal {
                return Err(Stop::Violation(
                    "history-independence".into(),
                    format!(
                        "text {:?}: a fresh context typing it straight shows [{}] but execution {} (another history reaching the same text) shows [{}]",
                        ref_typed,
                        ref_obs.brief(),
                        i,
                        o.brief()
                    ),
                ));
            }
        }
        if compared == 0 {
            self.stats.bump("oracle.C05_run_without_comparison");
        }
        Ok(())
    }

    pub fn run(&mut self, plan: &Plan) -> Outcome {
        crate::entropy::reseed(plan.hash_seed);
        let mut end = End::Ok;
        let mut executed = 0;
        for (i, op) in plan.ops.iter().enumerate() {
            self.cur = i;
            crate::watch::enter_call(i);
            let mut stepped = self.step(op);
            crate::watch::leave_call();
            if stepped.is_ok() && self.scenario == Scenario::Crashfree {
                if let Some((at, bytes)) = self.heavy_call {
                    // the deterministic twin of the time bound: the same in every execution.
                    // A blow-up in time and memory must not be allowed to run on.
                    stepped = Err(Stop::Violation(
                        "cost-bound".into(),
                        format!(
                            "call #{} requested {} MiB from the allocator (bound {} MiB): a blow-up in time and memory",
                            at,
                            bytes >> 20,
                            self.opts.alloc_bound_bytes >> 20
                        ),
                    ));
                } else if let Some((at, dt)) = self.slow_call {
                    // A slow call alone does not end the run at once: when the cause is a
                    // blow-up the next calls cross the allocation bound, which is reported
                    // instead (it replays exactly). Five times the bound ends the run anyway.
                    if self.run_max_call_ns > 5 * self.opts.time_bound_ns {
                        stepped = Err(Stop::Violation(
                            "time-bound".into(),
                            format!("call #{} took {} ms (bound {} ms)", at, dt / 1_000_000, self.opts.time_bound_ns / 1_000_000),
                        ));
                    }
                }
            }
            match stepped {
                Ok(()) => {}
                Err(Stop::Violation(clause, detail)) => {
                    end = End::Violation(Violation {
                        clause,
                        detail,
                        op_index: i,
                    });
                    executed = i + 1;
                    break;
                }
                Err(Stop::Inconclusive(why)) => {
                    self.stats.bump("inconclusive_runs");
                    end = End::Inconclusive(why);
                    executed = i + 1;
                    break;
                }
                Err(Stop::Harness(why)) => {
                    end = End::Harness(why);
                    executed = i + 1;
                    break;
                }
            }
            if self.scenario == Scenario::LearnedDurability {
                // L4 at every event boundary is implied by checking after every op that
                // can write; done in do_commit. Cheap re-check on restarts:
                if matches!(op, Op::Restart { .. }) {
                    if let Err(Stop::Violation(clause, detail)) = self.judge_store_shape("restart") {
                        end = End::Violation(Violation { clause, detail, op_index: i });
                        executed = i + 1;
                        break;
                    }
                }
            }
            executed = i + 1;
        }
        if matches!(end, End::Ok) {
            self.cur = plan.ops.len();
            if self.scenario == Scenario::HistoryIndependence {
                match self.judge_history_independence() {
                    Ok(()) => {}
                    Err(Stop::Violation(clause, detail)) => {
                        end = End::Violation(Violation { clause, detail, op_index: plan.ops.len() })
                    }
                    Err(Stop::Inconclusive(why)) => {
                        self.stats.bump("inconclusive_runs");
                        end = End::Inconclusive(why)
                    }
                    Err(Stop::Harness(why)) => end = End::Harness(why),
                }
            }
            if let (Scenario::Crashfree, Some((i, dt))) = (self.scenario, self.slow_call) {
                if matches!(end, End::Ok) {
                    end = End::Violation(Violation {
                        clause: "time-bound".into(),
                        detail: format!("call #{} took {} ms (bound {} ms)", i, dt / 1_000_000, self.opts.time_bound_ns / 1_000_000),
                        op_index: i,
                    });
                }
            }
        }
        let final_store = self.disk.get(FileId::Store).as_deref().and_then(learn::parse_store);
        let host_final: Vec<u64> = self
            .slots
            .iter()
            .map(|s| match s {
                Some(s) if s.host.alive() => s.host.last.fingerprint(fnv_add(0xcbf2_9ce4_8422_2325, s.fe.typed.as_bytes())),
                _ => 0,
            })
            .collect();
        // drop all contexts before uninstalling the disk
        for s in self.slots.iter_mut() {
            *s = None;
        }
        riti::verif_fs::install(None);
        self.digest = fnv_add(self.digest, &self.disk.digest().to_le_bytes());
        self.stats.interleavings.insert(self.inter);
        let (r, o, w) = self.disk.counts();
        self.stats.add("disk.reads_served", r);
        self.stats.add("disk.opens_served", o);
        self.stats.add("disk.writes_served", w);
        self.stats.runs += 1;
        Outcome {
            host_final,
            obs_digest: self.obs_digest,
            final_store,
            end,
            digest: self.digest,
            executed,
        }
    }
}

pub fn execute(env: &Env, plan: &Plan, stats: &mut Stats, opts: ExecOpts) -> (Outcome, Vec<String>) {
    let (mut o, mut log) = {
        let mut w = World::new(env, plan, stats, opts.clone());
        let o = w.run(plan);
        let log = std::mem::take(&mut w.log);
        (o, log)
    };
    // C05, "while other contexts are being used in the same process": the same history
    // without the bystander context must show the same on every other host. (Inside one
    // process all contexts see the same shared state and agree with each other, so only
    // taking the other context away can show that it mattered.)
    if plan.scenario == Scenario::HistoryIndependence
        && matches!(o.end, End::Ok)
        && plan.ops.iter().any(|op| op.host() == Some(BYSTANDER))
    {
        let mut stripped = plan.clone();
        stripped.ops.retain(|op| op.host() != Some(BYSTANDER));
        let mut scratch = Stats::default();
        let mut w = World::new(env, &stripped, &mut scratch, ExecOpts { log: false, ..opts.clone() });
        let o2 = w.run(&stripped);
        stats.evaluations += 1;
        stats.bump("oracle.C05_bystander_removed_compared");
        if matches!(o2.end, End::Ok) {
            for h in 0..(BYSTANDER as usize) {
                if o.host_final.get(h) != o2.host_final.get(h) {
                    let detail = format!(
                        "host {} ends showing something else when the bystander context (another configuration, used in the same process) is taken out of the same history",
                        h
                    );
                    log.push(format!("bystander-independence: {}", detail));
                    o.end = End::Violation(Violation { clause: "bystander-independence".into(), detail, op_index: plan.ops.len() });
                    break;
                }
            }
        }
    }
    // C05, "a function of the characters that survive, the configuration, the data files and
    // the learned selections only": the order in which the randomly keyed hash maps of this
    // process happen to iterate is none of these. The same history is executed again with
    // other keys for every map; every host must end showing the same.
    if plan.scenario == Scenario::HistoryIndependence && matches!(o.end, End::Ok) && plan.hash_seed % 3 != 0 {
        let mut rekeyed = plan.clone();
        rekeyed.hash_seed = plan.hash_seed ^ 0x9E37_79B9_7F4A_7C15;
        let mut scratch = Stats::default();
        let mut w = World::new(env, &rekeyed, &mut scratch, ExecOpts { log: false, ..opts.clone() });
        let o2 = w.run(&rekeyed);
        stats.evaluations += 1;
        stats.bump("oracle.C05_rekeyed_maps_compared");
        if matches!(o2.end, End::Ok) && o.host_final != o2.host_final {
            let h = (0..o.host_final.len()).find(|&i| o.host_final.get(i) != o2.host_final.get(i)).unwrap_or(0);
            let detail = format!(
                "host {} ends showing something else when the very same history is executed with other keys for the process's hash maps (iteration order is not part of the typed text, the configuration, the data files or the learned selections)",
                h
            );
            log.push(format!("hash-order-independence: {}", detail));
            o.end = End::Violation(Violation { clause: "hash-order-independence".into(), detail, op_index: plan.ops.len() });
        } else if let End::Violation(v) = o2.end {
            // the history itself fails its oracle under the other keys
            log.push(format!("under other hash keys: {}: {}", v.clause, v.detail));
            o.end = End::Violation(Violation { clause: "hash-order-independence".into(), detail: format!("with other keys for the process's hash maps the same history violates {}: {}", v.clause, v.detail), op_index: plan.ops.len() });
        }
    }
    (o, log)
}

#[allow(dead_code)]
pub fn unused(_: &BTreeMap<String, u64>, _: u16) {
    let _ = ENGLISH;
}

/// CPU time consumed by the calling thread, in nanoseconds.
pub fn thread_cpu_ns() -> u64 {
    let mut ts = libc::timespec { tv_sec: 0, tv_nsec: 0 };
    // SAFETY: plain syscall writing into a local
    unsafe { libc::clock_gettime(libc::CLOCK_THREAD_CPUTIME_ID, &mut ts) };
    ts.tv_sec as u64 * 1_000_000_000 + ts.tv_nsec as u64
}
