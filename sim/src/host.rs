//! A host = one process that hosts the input method: a configuration, a live
//! `RitiContext` and the front-end's record of what it was last shown. Everything a
//! front-end can observe after one call is an `Obs`.

use riti::context::RitiContext;
use riti::suggestion::Suggestion;
use serde::{Deserialize, Serialize};

use crate::cfg::{CfgHandle, CfgSpec, Paths};
use crate::disk::SimDisk;
use crate::panics::guarded;
use crate::prng::fnv_add;

#[derive(Clone, Debug, PartialEq, Eq, Serialize, Deserialize)]
pub enum ObsKind {
    /// The empty suggestion (a single empty string).
    Empty,
    Single(String),
    List {
        aux: String,
        cands: Vec<String>,
        sel: usize,
    },
}

#[derive(Clone, Debug, PartialEq, Eq, Serialize, Deserialize)]
pub struct Obs {
    pub kind: ObsKind,
    /// Pre-edit text read at every index (`Err(panic message)` if that read panicked).
    pub pre: Vec<Result<String, String>>,
    /// `ongoing_input_session()` right after the call.
    pub session: bool,
}

impl Obs {
    pub fn idle_empty() -> Obs {
        Obs {
            kind: ObsKind::Empty,
            pre: vec![Ok(String::new())],
            session: false,
        }
    }

    pub fn list_len(&self) -> Option<usize> {
        match &self.kind {
            ObsKind::List { cands, .. } => Some(cands.len()),
            _ => None,
        }
    }

    pub fn sel(&self) -> Option<usize> {
        match &self.kind {
            ObsKind::List { sel, .. } => Some(*sel),
            _ => None,
        }
    }

    pub fn is_empty(&self) -> bool {
        match &self.kind {
            ObsKind::Empty => true,
            ObsKind::Single(s) => s.is_empty(),
            ObsKind::List { cands, .. } => cands.is_empty(),
        }
    }

    /// The text the front-end would show as composition: the auxiliary text of a list,
    /// or the single string.
    pub fn shown_text(&self) -> &str {
        match &self.kind {
            ObsKind::Empty => "",
            ObsKind::Single(s) => s,
            ObsKind::List { aux, .. } => aux,
        }
    }

    /// The first candidate of a list and its pre-edit text (what a commit of the default
    /// choice would take).
    pub fn first_candidate(&self) -> Option<(String, Option<String>)> {
        match &self.kind {
            ObsKind::List { cands, .. } if !cands.is_empty() => {
                Some((cands[0].clone(), self.pre.first().and_then(|p| p.as_ref().ok().cloned())))
            }
            _ => None,
        }
    }

    pub fn any_nonempty_preedit(&self) -> bool {
        self.pre.iter().any(|p| matches!(p, Ok(s) if !s.is_empty()))
    }

    pub fn fingerprint(&self, h: u64) -> u64 {
        let mut h = h;
        match &self.kind {
            ObsKind::Empty => h = fnv_add(h, b"E"),
            ObsKind::Single(s) => {
                h = fnv_add(h, b"S");
                h = fnv_add(h, s.as_bytes());
            }
            ObsKind::List { aux, cands, sel } => {
                h = fnv_add(h, b"L");
                h = fnv_add(h, aux.as_bytes());
                for c in cands {
                    h = fnv_add(h, b"|");
                    h = fnv_add(h, c.as_bytes());
                }
                h = fnv_add(h, &(*sel as u64).to_le_bytes());
            }
        }
        for p in &self.pre {
            match p {
                Ok(s) => {
                    h = fnv_add(h, b"+");
                    h = fnv_add(h, s.as_bytes());
                }
                Err(_) => h = fnv_add(h, b"!"),
            }
        }
        fnv_add(h, &[self.session as u8])
    }

    pub fn brief(&self) -> String {
        match &self.kind {
            ObsKind::Empty => format!("empty session={}", self.session),
            ObsKind::Single(s) => format!("single {:?} session={}", s, self.session),
            ObsKind::List { aux, cands, sel } => format!(
                "list aux={:?} sel={} cands={:?} session={}",
                aux, sel, cands, self.session
            ),
        }
    }
}

/// Reads everything a front-end can read out of a `Suggestion`. Each read-out is
/// guarded separately: C02 requires every index to be readable.
pub fn observe(s: &Suggestion, session: bool) -> Result<Obs, String> {
    if s.is_lonely() {
        let text = guarded(|| s.get_lonely_suggestion().to_string())?;
        let pre = vec![guarded(|| s.get_pre_edit_text(0))];
        let kind = if text.is_empty() {
            ObsKind::Empty
        } else {
            ObsKind::Single(text)
        };
        Ok(Obs { kind, pre, session })
    } else {
        let len = guarded(|| s.len())?;
        let cands = guarded(|| s.get_suggestions().to_vec())?;
        let aux = guarded(|| s.get_auxiliary_text().to_string())?;
        let sel = guarded(|| s.previously_selected_index())?;
        let mut pre = Vec::with_capacity(len);
        for i in 0..len {
            pre.push(guarded(|| s.get_pre_edit_text(i)));
        }
        Ok(Obs {
            kind: ObsKind::List { aux, cands, sel },
            pre,
            session,
        })
    }
}

pub struct Host {
    pub spec: CfgSpec,
    pub handle: CfgHandle,
    pub ctx: Option<RitiContext>,
    pub disk: SimDisk,
    /// What the front-end was last shown (idle-empty after creation and after
    /// terminating events).
    pub last: Obs,
    /// Number of contexts this host has created (restarts + 1).
    pub generation: u32,
}

impl Host {
    /// Builds a host and its first context over `disk`. `Err` = construction panicked.
    pub fn spawn(spec: CfgSpec, disk: SimDisk, paths: &Paths) -> Result<Host, String> {
        // (install first: a Config reads the user-data location when it is created)
        disk.install();
        let handle = CfgHandle::build(&spec, paths).map_err(|e| format!("HARNESS: {}", e))?;
        let ctx = guarded(|| RitiContext::new_with_config(handle.get()))?;
        Ok(Host {
            spec,
            handle,
            ctx: Some(ctx),
            disk,
            last: Obs::idle_empty(),
            generation: 1,
        })
    }

    /// Process death + start: only the disk survives.
    pub fn restart(&mut self, paths: &Paths) -> Result<(), String> {
        self.ctx = None;
        self.last = Obs::idle_empty();
        self.disk.install();
        self.handle =
            CfgHandle::build(&self.spec, paths).map_err(|e| format!("HARNESS: {}", e))?;
        let handle = &self.handle;
        let ctx = guarded(|| RitiContext::new_with_config(handle.get()))?;
        self.ctx = Some(ctx);
        self.generation += 1;
        Ok(())
    }

    pub fn kill(&mut self) {
        self.ctx = None;
        self.last = Obs::idle_empty();
    }

    pub fn alive(&self) -> bool {
        self.ctx.is_some()
    }

    fn ctx(&self) -> &RitiContext {
        self.ctx.as_ref().expect("host is dead")
    }

    pub fn session(&self) -> Result<bool, String> {
        self.disk.install();
        let c = self.ctx();
        guarded(|| c.ongoing_input_session())
    }

    pub fn key(&mut self, key: u16, modifier: u8, selection: u8) -> Result<Obs, String> {
        self.disk.install();
        let c = self.ctx();
        let s = guarded(|| c.get_suggestion_for_key(key, modifier, selection))?;
        let session = guarded(|| c.ongoing_input_session())?;
        let o = observe(&s, session)?;
        self.last = o.clone();
        Ok(o)
    }

    pub fn backspace(&mut self, ctrl: bool) -> Result<Obs, String> {
        self.disk.install();
        let c = self.ctx();
        let s = guarded(|| c.backspace_event(ctrl))?;
        let session = guarded(|| c.ongoing_input_session())?;
        let o = observe(&s, session)?;
        self.last = o.clone();
        Ok(o)
    }

    pub fn commit(&mut self, index: usize) -> Result<bool, String> {
        self.disk.install();
        let c = self.ctx();
        guarded(|| c.candidate_committed(index))?;
        let session = guarded(|| c.ongoing_input_session())?;
        self.last = Obs {
            session,
            ..Obs::idle_empty()
        };
        Ok(session)
    }

    pub fn finish(&mut self) -> Result<bool, String> {
        self.disk.install();
        let c = self.ctx();
        guarded(|| c.finish_input_session())?;
        let session = guarded(|| c.ongoing_input_session())?;
        self.last = Obs {
            session,
            ..Obs::idle_empty()
        };
        Ok(session)
    }

    pub fn update(&mut self, spec: CfgSpec, paths: &Paths) -> Result<(), String> {
        self.disk.install();
        let handle = CfgHandle::build(&spec, paths).map_err(|e| format!("HARNESS: {}", e))?;
        let c = self.ctx.as_mut().expect("host is dead");
        guarded(|| c.update_engine(handle.get()))?;
        self.spec = spec;
        self.handle = handle;
        Ok(())
    }
}
