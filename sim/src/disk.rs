//! The simulated disk: the two per-user files, the state of the user-data directory,
//! armed faults, and the only clock any mtime is taken from.
//!
//! `std::fs::write` = open(O_TRUNC|O_CREAT) + write_all: an error at open leaves the
//! file untouched; an error or a crash after the open leaves a prefix of the new data.
//! Nothing riti writes is fsync'ed, so until the kernel flushes (modelled: simulated
//! time advancing by >= FLUSH_NS) a power loss reverts a file to its last durable
//! content.

use riti::verif_fs::SimFs;
use serde::{Deserialize, Serialize};
use std::cell::RefCell;
use std::io;
use std::path::Path;
use std::rc::Rc;
use std::time::{Duration, SystemTime};

use crate::prng::fnv_add;

pub const XDG: &str = "/riti-sim-virtual";
pub const USER_DIR: &str = "/riti-sim-virtual/openbangla-keyboard";
pub const STORE_NAME: &str = "phonetic-candidate-selection.json";
pub const AC_NAME: &str = "autocorrect.json";
pub const CLOCK_START_NS: u64 = 1_790_000_000_000_000_000; // some day in 2026
pub const FLUSH_NS: u64 = 30_000_000_000;

#[derive(Clone, Copy, PartialEq, Eq, Debug, Serialize, Deserialize, PartialOrd, Ord, Hash)]
pub enum FileId {
    Store,
    Autocorrect,
}

impl FileId {
    pub fn ix(self) -> usize {
        match self {
            FileId::Store => 0,
            FileId::Autocorrect => 1,
        }
    }
}

#[derive(Clone, Copy, PartialEq, Eq, Debug, Serialize, Deserialize)]
pub enum DirState {
    Present,
    Missing,
    ReadOnly,
}

#[derive(Clone, Copy, PartialEq, Eq, Debug, Serialize, Deserialize)]
pub enum ErrKind {
    NotFound,
    Access,
    Rofs,
    NoSpace,
    Io,
}

impl ErrKind {
    pub fn to_io(self) -> io::Error {
        match self {
            ErrKind::NotFound => io::Error::new(io::ErrorKind::NotFound, "sim: ENOENT"),
            ErrKind::Access => io::Error::new(io::ErrorKind::PermissionDenied, "sim: EACCES"),
            ErrKind::Rofs => io::Error::new(io::ErrorKind::PermissionDenied, "sim: EROFS"),
            ErrKind::NoSpace => io::Error::new(io::ErrorKind::Other, "sim: ENOSPC"),
            ErrKind::Io => io::Error::new(io::ErrorKind::Other, "sim: EIO"),
        }
    }
}

/// One-shot fault for the next `write` of the learned-selection store.
#[derive(Clone, Copy, PartialEq, Eq, Debug, Serialize, Deserialize)]
pub enum WriteFault {
    /// open fails, file untouched, `Err` returned.
    OpenFails(ErrKind),
    /// truncate, `k mod (len+1)` bytes reach the disk, `Err` returned.
    FailsAfter(u32, ErrKind),
    /// truncate, `k mod (len+1)` bytes reach the disk, then the writing process dies.
    CrashAfter(u32),
}

#[derive(Clone, Debug, PartialEq)]
pub struct FileEnt {
    pub bytes: Vec<u8>,
    pub mtime: u64,
}

#[derive(Clone, Debug, PartialEq)]
pub enum WriteOutcome {
    Complete,
    OpenFailed(ErrKind),
    Failed(usize, ErrKind),
    TornByCrash(usize),
    /// The process died while writing some other file of the user-data directory (the
    /// temporary file of an atomic save): the store itself is untouched.
    CrashedBesideStore,
}

#[derive(Clone, Debug)]
pub struct WriteRecord {
    pub file: FileId,
    pub data: Vec<u8>,
    pub outcome: WriteOutcome,
}

#[derive(Clone)]
pub struct DiskState {
    pub files: [Option<FileEnt>; 2],
    /// Any other file a (changed) engine keeps in the user-data directory, e.g. the
    /// temporary file of an atomic save.
    pub extra: std::collections::BTreeMap<String, FileEnt>,
    /// `Some(prev)` while the current content of the file has not been flushed:
    /// `prev` is what a power loss brings back.
    pub unflushed: [Option<Option<FileEnt>>; 2],
    pub last_write_ns: u64,
    pub dir: DirState,
    pub armed: Option<WriteFault>,
    pub deny_open: [bool; 2],
    pub now: u64,
    /// Set by a `CrashAfter` write: the interpreter must kill the writing host as soon
    /// as the call returns.
    pub crash_pending: bool,
    /// Every write since the interpreter last drained this list.
    pub writes: Vec<WriteRecord>,
    /// Number of reads / opens / writes served (for evidence and digests).
    pub n_read: u64,
    pub n_open: u64,
    pub n_write: u64,
    /// Running digest of every access and every byte written.
    pub digest: u64,
    /// `selftest fsmodel` only: when set, this disk is a *real* directory (the XDG root);
    /// nothing is simulated, riti goes through the real std::fs, and the harness's own
    /// accesses (`get`, `put`, `fork`) are real file operations with explicit mtimes.
    pub mirror: Option<String>,
}

impl Default for DiskState {
    fn default() -> Self {
        DiskState {
            files: [None, None],
            extra: std::collections::BTreeMap::new(),
            unflushed: [None, None],
            last_write_ns: 0,
            dir: DirState::Present,
            armed: None,
            deny_open: [false, false],
            now: CLOCK_START_NS,
            crash_pending: false,
            writes: Vec::new(),
            n_read: 0,
            n_open: 0,
            n_write: 0,
            digest: 0xcbf2_9ce4_8422_2325,
            mirror: None,
        }
    }
}

static MIRROR_SEQ: std::sync::atomic::AtomicU64 = std::sync::atomic::AtomicU64::new(0);

fn mirror_path(root: &str, f: FileId) -> String {
    format!(
        "{}/openbangla-keyboard/{}",
        root,
        match f {
            FileId::Store => STORE_NAME,
            FileId::Autocorrect => AC_NAME,
        }
    )
}

#[derive(Clone)]
pub struct SimDisk(pub Rc<RefCell<DiskState>>);

#[derive(Clone, Debug, PartialEq)]
enum Which {
    Known(FileId),
    /// some other name directly inside the user-data directory
    Other(String),
    /// the user-data directory itself (or a parent of it inside the virtual root)
    Dir,
}

fn classify(path: &Path) -> Option<Which> {
    let s = path.to_str()?;
    if let Some(rest) = s.strip_prefix(USER_DIR) {
        let rest = rest.strip_prefix('/').unwrap_or(rest);
        return Some(match rest {
            "" => Which::Dir,
            STORE_NAME => Which::Known(FileId::Store),
            AC_NAME => Which::Known(FileId::Autocorrect),
            other => Which::Other(other.to_string()),
        });
    }
    if s == XDG || s.starts_with(&format!("{}/", XDG)) {
        return Some(Which::Dir);
    }
    None
}

pub fn to_system_time(ns: u64) -> SystemTime {
    SystemTime::UNIX_EPOCH + Duration::from_nanos(ns)
}

impl SimDisk {
    pub fn new() -> Self {
        SimDisk(Rc::new(RefCell::new(DiskState::default())))
    }

    /// A real directory under `base` instead of a simulated disk (selftest fsmodel).
    pub fn new_mirror(base: &str) -> Self {
        let n = MIRROR_SEQ.fetch_add(1, std::sync::atomic::Ordering::SeqCst);
        let root = format!("{}/d{}", base, n);
        std::fs::create_dir_all(format!("{}/openbangla-keyboard", root)).expect("mirror dir");
        let d = SimDisk::new();
        d.0.borrow_mut().mirror = Some(root);
        d
    }

    pub fn is_mirror(&self) -> bool {
        self.0.borrow().mirror.is_some()
    }

    /// The fork primitive: an independent copy of the disk as of now.
    pub fn fork(&self) -> SimDisk {
        let mirror = self.0.borrow().mirror.clone();
        if let Some(root) = mirror {
            let base = std::path::Path::new(&root).parent().unwrap().to_str().unwrap().to_string();
            let d = SimDisk::new_mirror(&base);
            d.0.borrow_mut().now = self.0.borrow().now;
            for f in [FileId::Store, FileId::Autocorrect] {
                if let Some(b) = self.get(f) {
                    d.put(f, Some(b), self.mtime(f));
                }
            }
            return d;
        }
        let mut st = self.0.borrow().clone();
        st.writes.clear();
        SimDisk(Rc::new(RefCell::new(st)))
    }

    pub fn install(&self) {
        if let Some(root) = &self.0.borrow().mirror {
            // the user-data directory is read from the environment when a Config is made
            riti::verif_fs::install(None);
            std::env::set_var("XDG_DATA_HOME", root);
            return;
        }
        let rc: Rc<dyn SimFs> = Rc::new(self.clone());
        riti::verif_fs::install(Some(rc));
    }

    pub fn now(&self) -> u64 {
        self.0.borrow().now
    }

    /// Advances the simulated clock; a long enough quiet period flushes the page cache.
    pub fn advance(&self, dt: u64) {
        let mut st = self.0.borrow_mut();
        st.now += dt;
        if st.now - st.last_write_ns >= FLUSH_NS {
            st.unflushed = [None, None];
        }
    }

    pub fn get(&self, f: FileId) -> Option<Vec<u8>> {
        if let Some(root) = &self.0.borrow().mirror {
            return std::fs::read(mirror_path(root, f)).ok();
        }
        self.0.borrow().files[f.ix()].as_ref().map(|e| e.bytes.clone())
    }

    pub fn mtime(&self, f: FileId) -> Option<u64> {
        if let Some(root) = &self.0.borrow().mirror {
            return std::fs::metadata(mirror_path(root, f))
                .ok()
                .and_then(|m| m.modified().ok())
                .and_then(|t| t.duration_since(SystemTime::UNIX_EPOCH).ok())
                .map(|d| d.as_nanos() as u64);
        }
        self.0.borrow().files[f.ix()].as_ref().map(|e| e.mtime)
    }

    /// External modification (the editor, the fault injector): bypasses armed faults.
    pub fn put(&self, f: FileId, bytes: Option<Vec<u8>>, mtime: Option<u64>) {
        let mirror = self.0.borrow().mirror.clone();
        if let Some(root) = mirror {
            let p = mirror_path(&root, f);
            match bytes {
                None => {
                    let _ = std::fs::remove_file(&p);
                }
                Some(b) => {
                    std::fs::write(&p, &b).expect("mirror write");
                    let t = to_system_time(mtime.unwrap_or(self.0.borrow().now));
                    let file = std::fs::OpenOptions::new().write(true).open(&p).expect("mirror open");
                    file.set_modified(t).expect("mirror set_modified");
                }
            }
            return;
        }
        let mut st = self.0.borrow_mut();
        let now = st.now;
        st.files[f.ix()] = bytes.map(|b| FileEnt {
            bytes: b,
            mtime: mtime.unwrap_or(now),
        });
        st.unflushed[f.ix()] = None;
    }

    pub fn set_dir(&self, d: DirState) {
        let mut st = self.0.borrow_mut();
        if d == DirState::Missing {
            st.files = [None, None];
            st.extra.clear();
            st.unflushed = [None, None];
        }
        st.dir = d;
    }

    pub fn dir(&self) -> DirState {
        self.0.borrow().dir
    }

    pub fn arm(&self, f: Option<WriteFault>) {
        self.0.borrow_mut().armed = f;
    }

    pub fn armed(&self) -> Option<WriteFault> {
        self.0.borrow().armed
    }

    pub fn set_deny_open(&self, f: FileId, deny: bool) {
        self.0.borrow_mut().deny_open[f.ix()] = deny;
    }

    pub fn healthy(&self) -> bool {
        let st = self.0.borrow();
        st.dir == DirState::Present && st.armed.is_none() && !st.deny_open[0] && !st.deny_open[1]
    }

    pub fn take_crash_pending(&self) -> bool {
        std::mem::take(&mut self.0.borrow_mut().crash_pending)
    }

    pub fn drain_writes(&self) -> Vec<WriteRecord> {
        std::mem::take(&mut self.0.borrow_mut().writes)
    }

    /// Power loss: every unflushed file reverts to its last durable content.
    /// Returns how many files reverted.
    pub fn power_loss(&self) -> usize {
        let mut st = self.0.borrow_mut();
        let mut n = 0;
        for i in 0..2 {
            if let Some(prev) = st.unflushed[i].take() {
                if st.files[i] != prev {
                    n += 1;
                }
                st.files[i] = prev;
            }
        }
        n
    }

    pub fn has_unflushed(&self) -> bool {
        let st = self.0.borrow();
        st.unflushed.iter().any(|u| u.is_some())
    }

    pub fn digest(&self) -> u64 {
        self.0.borrow().digest
    }

    pub fn counts(&self) -> (u64, u64, u64) {
        let st = self.0.borrow();
        (st.n_read, st.n_open, st.n_write)
    }

    fn fetch(&self, w: Which, tag: u8) -> io::Result<(Vec<u8>, u64)> {
        let mut st = self.0.borrow_mut();
        let code = match &w {
            Which::Known(f) => f.ix() as u8,
            Which::Other(_) => 8,
            Which::Dir => 9,
        };
        st.digest = fnv_add(st.digest, &[tag, code]);
        if st.dir == DirState::Missing {
            return Err(ErrKind::NotFound.to_io());
        }
        let ent = match &w {
            Which::Known(f) => {
                if st.deny_open[f.ix()] {
                    return Err(ErrKind::Access.to_io());
                }
                st.files[f.ix()].clone()
            }
            Which::Other(name) => st.extra.get(name).cloned(),
            Which::Dir => return Err(io::Error::new(io::ErrorKind::Other, "sim: is a directory")),
        };
        match ent {
            Some(e) => {
                st.digest = fnv_add(st.digest, &(e.bytes.len() as u64).to_le_bytes());
                Ok((e.bytes, e.mtime))
            }
            None => Err(ErrKind::NotFound.to_io()),
        }
    }
}

fn dead() -> io::Error {
    // After a crash inside a write the process is dead: whatever the engine's code still
    // does in the same call (rename the temporary file, remove it, ...) never happens.
    io::Error::new(io::ErrorKind::Other, "sim: the process died inside an earlier write")
}

impl SimFs for SimDisk {
    fn read(&self, path: &Path) -> Option<io::Result<Vec<u8>>> {
        let w = classify(path)?;
        if self.0.borrow().crash_pending {
            return Some(Err(dead()));
        }
        self.0.borrow_mut().n_read += 1;
        Some(self.fetch(w, b'r').map(|(b, _)| b))
    }

    fn open(&self, path: &Path) -> Option<io::Result<(Vec<u8>, SystemTime)>> {
        let w = classify(path)?;
        if self.0.borrow().crash_pending {
            return Some(Err(dead()));
        }
        self.0.borrow_mut().n_open += 1;
        Some(self.fetch(w, b'o').map(|(b, t)| (b, to_system_time(t))))
    }

    fn write(&self, path: &Path, data: &[u8]) -> Option<io::Result<()>> {
        let w = classify(path)?;
        if self.0.borrow().crash_pending {
            return Some(Err(dead()));
        }
        let mut st = self.0.borrow_mut();
        st.n_write += 1;
        st.digest = fnv_add(st.digest, b"w");
        st.digest = fnv_add(st.digest, data);
        if w == Which::Dir {
            return Some(Err(io::Error::new(io::ErrorKind::Other, "sim: is a directory")));
        }
        let natural = match st.dir {
            DirState::Missing => Some(ErrKind::NotFound),
            DirState::ReadOnly => Some(ErrKind::Access),
            DirState::Present => None,
        };
        // an armed fault bites the next write into the user-data directory, whichever file
        // the engine writes first (the store itself, or the temporary file of an atomic save)
        let fault = if w != Which::Known(FileId::Autocorrect) { st.armed.take() } else { None };
        let now = st.now;
        let put = |st: &mut DiskState, bytes: &[u8]| match &w {
            Which::Known(f) => Self::store(st, *f, bytes, now),
            Which::Other(name) => {
                st.extra.insert(name.clone(), FileEnt { bytes: bytes.to_vec(), mtime: now });
                st.last_write_ns = now;
            }
            Which::Dir => {}
        };
        let (outcome, result): (WriteOutcome, io::Result<()>) = if let Some(kind) = natural {
            (WriteOutcome::OpenFailed(kind), Err(kind.to_io()))
        } else {
            match fault {
                Some(WriteFault::OpenFails(kind)) => (WriteOutcome::OpenFailed(kind), Err(kind.to_io())),
                Some(WriteFault::FailsAfter(k, kind)) => {
                    let k = k as usize % (data.len() + 1);
                    put(&mut st, &data[..k]);
                    (WriteOutcome::Failed(k, kind), Err(kind.to_io()))
                }
                Some(WriteFault::CrashAfter(k)) => {
                    let k = k as usize % (data.len() + 1);
                    put(&mut st, &data[..k]);
                    st.crash_pending = true;
                    (WriteOutcome::TornByCrash(k), Ok(()))
                }
                None => {
                    put(&mut st, data);
                    (WriteOutcome::Complete, Ok(()))
                }
            }
        };
        st.digest = fnv_add(st.digest, format!("{:?}", outcome).as_bytes());
        // the harness's durable model follows the store; writes of other files are
        // reported under the store's name only when they fail or tear (a save attempt)
        let report = match (&w, &outcome) {
            (Which::Known(f), _) => Some(*f),
            (Which::Other(_), WriteOutcome::Complete) => None,
            (Which::Other(_), _) => Some(FileId::Store),
            _ => None,
        };
        if let Some(file) = report {
            // a torn temporary file leaves the store itself intact
            let outcome = match (&w, outcome) {
                (Which::Other(_), WriteOutcome::Failed(_, k)) => WriteOutcome::OpenFailed(k),
                (Which::Other(_), WriteOutcome::TornByCrash(_)) => WriteOutcome::CrashedBesideStore,
                (_, o) => o,
            };
            st.writes.push(WriteRecord { file, data: data.to_vec(), outcome });
        }
        Some(result)
    }

    fn rename(&self, from: &Path, to: &Path) -> Option<io::Result<()>> {
        let wf = classify(from)?;
        let wt = classify(to)?;
        if self.0.borrow().crash_pending {
            return Some(Err(dead()));
        }
        let mut st = self.0.borrow_mut();
        st.n_write += 1;
        st.digest = fnv_add(st.digest, b"mv");
        match st.dir {
            DirState::Missing => return Some(Err(ErrKind::NotFound.to_io())),
            DirState::ReadOnly => {
                if let Which::Known(f) = &wt {
                    st.writes.push(WriteRecord { file: *f, data: vec![], outcome: WriteOutcome::OpenFailed(ErrKind::Access) });
                }
                return Some(Err(ErrKind::Access.to_io()));
            }
            DirState::Present => {}
        }
        let ent = match &wf {
            Which::Known(f) => st.files[f.ix()].take(),
            Which::Other(name) => st.extra.remove(name),
            Which::Dir => None,
        };
        let ent = match ent {
            Some(e) => e,
            None => return Some(Err(ErrKind::NotFound.to_io())),
        };
        let now = st.now;
        st.digest = fnv_add(st.digest, &ent.bytes);
        match &wt {
            Which::Known(f) => {
                Self::store(&mut st, *f, &ent.bytes, now);
                st.writes.push(WriteRecord { file: *f, data: ent.bytes.clone(), outcome: WriteOutcome::Complete });
            }
            Which::Other(name) => {
                st.extra.insert(name.clone(), ent);
            }
            Which::Dir => return Some(Err(io::Error::new(io::ErrorKind::Other, "sim: is a directory"))),
        }
        Some(Ok(()))
    }

    fn remove_file(&self, path: &Path) -> Option<io::Result<()>> {
        let w = classify(path)?;
        if self.0.borrow().crash_pending {
            return Some(Err(dead()));
        }
        let mut st = self.0.borrow_mut();
        st.digest = fnv_add(st.digest, b"rm");
        match st.dir {
            DirState::Missing => return Some(Err(ErrKind::NotFound.to_io())),
            DirState::ReadOnly => return Some(Err(ErrKind::Access.to_io())),
            DirState::Present => {}
        }
        let existed = match &w {
            Which::Known(f) => st.files[f.ix()].take().is_some(),
            Which::Other(name) => st.extra.remove(name).is_some(),
            Which::Dir => false,
        };
        Some(if existed { Ok(()) } else { Err(ErrKind::NotFound.to_io()) })
    }

    fn create_dir_all(&self, path: &Path) -> Option<io::Result<()>> {
        classify(path)?;
        if self.0.borrow().crash_pending {
            return Some(Err(dead()));
        }
        let mut st = self.0.borrow_mut();
        st.digest = fnv_add(st.digest, b"mkdir");
        if st.dir == DirState::Missing {
            // an engine that creates its data directory when it is missing
            st.dir = DirState::Present;
        }
        Some(Ok(()))
    }

    fn create(&self, path: &Path) -> Option<io::Result<()>> {
        let w = classify(path)?;
        let st = self.0.borrow();
        if w == Which::Dir {
            return Some(Err(io::Error::new(io::ErrorKind::Other, "sim: is a directory")));
        }
        // (errors of the open itself are delivered when the bytes arrive through `write`,
        // which applies the directory state and the armed fault)
        let _ = st;
        Some(Ok(()))
    }
}

impl SimDisk {
    fn store(st: &mut DiskState, f: FileId, bytes: &[u8], now: u64) {
        let prev = st.files[f.ix()].take();
        if st.unflushed[f.ix()].is_none() {
            st.unflushed[f.ix()] = Some(prev);
        }
        st.files[f.ix()] = Some(FileEnt {
            bytes: bytes.to_vec(),
            mtime: now,
        });
        st.last_write_ns = now;
    }
}
