//! The alphabet of histories and fault sequences, and the replayable plan.
//!
//! Arguments that depend on run-time state are stored *relatively* (`Idx::Rel(r)` means
//! `r mod len(last list)`, `Truncate(k)` means `k mod (len+1)`, ...), so every
//! sub-sequence of a valid history is still in contract. That is what makes
//! shrinking safe.

use serde::{Deserialize, Serialize};

use crate::cfg::CfgSpec;
use crate::disk::{DirState, FileId, WriteFault};

#[derive(Clone, Copy, PartialEq, Eq, Debug, Serialize, Deserialize)]
pub enum Sel {
    /// Any byte (C01 allows any).
    Raw(u8),
    /// `r mod len(previously returned list)`, 0 when there was no list.
    Valid(u8),
    /// What a real front-end passes: the preselected index of the list just shown.
    Presel,
    /// Counted from the end of the list just shown: `len - 1 - k` (0 when there is no list
    /// or it is shorter); always a valid index of that list.
    Top(u8),
}

#[derive(Clone, Copy, PartialEq, Eq, Debug, Serialize, Deserialize)]
pub enum Idx {
    /// `r mod len`.
    Rel(u8),
    /// The index the last suggestion showed as preselected.
    Presel,
    /// An index different from the preselected one (`presel + 1 + r mod (len-1)`); falls
    /// back to the preselected one when the list has a single entry.
    Other(u8),
    /// Counted from the end of the list: `len - 1 - min(k, len - 1)` (the deep end of a long
    /// list, where truncation and paging bite).
    Top(u8),
}

#[derive(Clone, PartialEq, Eq, Debug, Serialize, Deserialize)]
pub enum FileSt {
    Absent,
    /// Exact UTF-8 content.
    Text(String),
    /// Exact content, hex encoded (for non-UTF-8 documents).
    Hex(String),
    /// Keep `k mod (len+1)` bytes of the current content (nothing if absent).
    Truncate(u32),
    /// XOR the byte at `pos mod len` with `mask` (mask 0 is treated as 1).
    BitFlip(u32, u8),
    /// The file is moved out of the directory (kept aside with its modification time);
    /// nothing happens when it is absent.
    MoveAside,
    /// The file moved aside comes back, bytes and modification time as they were (`mv`,
    /// `cp -p`, a sync tool); nothing happens when none is aside or the name is taken.
    MoveBack,
}

#[derive(Clone, Copy, PartialEq, Eq, Debug, Serialize, Deserialize)]
pub enum Mt {
    /// mtime = simulated now (the clock is advanced by at least 1 ns first, so this is
    /// strictly later than anything written before).
    Now,
    /// mtime unchanged (same-timestamp edit).
    Tie,
    /// mtime = previous mtime - dt (restored backup / clock skew).
    Back(u64),
    /// mtime = simulated now + dt: a file stamped in the future (saved while the clock was
    /// wrong, copied from a machine with a skewed clock). Later than anything seen so far;
    /// a later edit stamped `Now` then lies *before* it.
    Ahead(u64),
}

#[derive(Clone, PartialEq, Eq, Debug, Serialize, Deserialize)]
pub enum Op {
    Key { h: u8, key: u16, m: u8, sel: Sel },
    Bs { h: u8, ctrl: bool },
    Commit { h: u8, idx: Idx },
    Finish { h: u8 },
    /// `update_engine` (only executed while the host is idle; skipped otherwise).
    Update { h: u8, cfg: CfgSpec },
    /// Start a host (a process hosting the IM) over the shared disk.
    Spawn { h: u8, cfg: CfgSpec },
    /// Process death and restart with the same configuration; only the disk survives.
    Restart { h: u8 },
    Kill { h: u8 },
    /// Create the lock-step twin of an idle host: a new context with the host's current
    /// configuration over a copy of the disk as of now.
    Fork { h: u8 },
    /// Plain backspaces until idle (bounded-liveness probe).
    Drain { h: u8 },
    /// Advance the simulated clock.
    Clock { dt: u64 },
    /// External change of a user file (fault injector or the auto-correct editor).
    SetFile { file: FileId, st: FileSt, mt: Mt },
    SetDir { st: DirState },
    DenyOpen { file: FileId, on: bool },
    /// Arm a one-shot fault for the next save of the store.
    Arm { fault: WriteFault },
    /// Faults stop: directory present, nothing armed, opens allowed.
    Heal,
    /// Machine-wide power loss: all hosts die, unflushed files revert.
    PowerLoss,
    /// Scenario-specific marker (C14: end of syllable; C05: none).
    Mark { tag: u8 },
}

impl Op {
    pub fn host(&self) -> Option<u8> {
        match self {
            Op::Key { h, .. }
            | Op::Bs { h, .. }
            | Op::Commit { h, .. }
            | Op::Finish { h }
            | Op::Update { h, .. }
            | Op::Spawn { h, .. }
            | Op::Restart { h }
            | Op::Kill { h }
            | Op::Fork { h }
            | Op::Drain { h } => Some(*h),
            _ => None,
        }
    }

    pub fn kind(&self) -> &'static str {
        match self {
            Op::Key { .. } => "key",
            Op::Bs { ctrl: false, .. } => "bs",
            Op::Bs { ctrl: true, .. } => "ctrl_bs",
            Op::Commit { .. } => "commit",
            Op::Finish { .. } => "finish",
            Op::Update { .. } => "update",
            Op::Spawn { .. } => "spawn",
            Op::Restart { .. } => "restart",
            Op::Kill { .. } => "kill",
            Op::Fork { .. } => "fork",
            Op::Drain { .. } => "drain",
            Op::Clock { .. } => "clock",
            Op::SetFile { .. } => "set_file",
            Op::SetDir { .. } => "set_dir",
            Op::DenyOpen { .. } => "deny_open",
            Op::Arm { .. } => "arm",
            Op::Heal => "heal",
            Op::PowerLoss => "power_loss",
            Op::Mark { .. } => "mark",
        }
    }

    pub fn kind_code(&self) -> u8 {
        match self {
            Op::Key { .. } => 1,
            Op::Bs { ctrl: false, .. } => 2,
            Op::Bs { ctrl: true, .. } => 3,
            Op::Commit { .. } => 4,
            Op::Finish { .. } => 5,
            Op::Update { .. } => 6,
            Op::Spawn { .. } => 7,
            Op::Restart { .. } => 8,
            Op::Kill { .. } => 9,
            Op::Fork { .. } => 10,
            Op::Drain { .. } => 11,
            Op::Clock { .. } => 12,
            Op::SetFile { .. } => 13,
            Op::SetDir { .. } => 14,
            Op::DenyOpen { .. } => 15,
            Op::Arm { .. } => 16,
            Op::Heal => 17,
            Op::PowerLoss => 18,
            Op::Mark { .. } => 19,
        }
    }
}

#[derive(Clone, Copy, PartialEq, Eq, Debug, Serialize, Deserialize, Hash, PartialOrd, Ord)]
pub enum Scenario {
    Crashfree,
    Wellformed,
    HistoryIndependence,
    SessionReset,
    LearnedDurability,
    UserfileFaults,
    Reconfigure,
    FixedRules,
    Reph,
    KarOrderEquiv,
}

impl Scenario {
    pub fn property(self) -> &'static str {
        match self {
            Scenario::Crashfree => "C01",
            Scenario::Wellformed => "C02",
            Scenario::HistoryIndependence => "C05",
            Scenario::SessionReset => "C06",
            Scenario::LearnedDurability => "C09",
            Scenario::UserfileFaults => "C10",
            Scenario::Reconfigure => "C11",
            Scenario::FixedRules => "C12",
            Scenario::Reph => "C13",
            Scenario::KarOrderEquiv => "C14",
        }
    }

    pub fn from_property(p: &str) -> Option<Scenario> {
        Some(match p {
            "C01" => Scenario::Crashfree,
            "C02" => Scenario::Wellformed,
            "C05" => Scenario::HistoryIndependence,
            "C06" => Scenario::SessionReset,
            "C09" => Scenario::LearnedDurability,
            "C10" => Scenario::UserfileFaults,
            "C11" => Scenario::Reconfigure,
            "C12" => Scenario::FixedRules,
            "C13" => Scenario::Reph,
            "C14" => Scenario::KarOrderEquiv,
            _ => return None,
        })
    }

    pub fn name(self) -> &'static str {
        match self {
            Scenario::Crashfree => "crashfree",
            Scenario::Wellformed => "wellformed",
            Scenario::HistoryIndependence => "history_independence",
            Scenario::SessionReset => "session_reset",
            Scenario::LearnedDurability => "learned_durability",
            Scenario::UserfileFaults => "userfile_faults",
            Scenario::Reconfigure => "reconfigure",
            Scenario::FixedRules => "fixed_rules",
            Scenario::Reph => "reph",
            Scenario::KarOrderEquiv => "kar_order_equiv",
        }
    }
}

/// Files planted on the disk before any host exists (exact content).
#[derive(Clone, PartialEq, Eq, Debug, Serialize, Deserialize, Default)]
pub struct Prelude {
    pub store: Option<String>,
    pub autocorrect: Option<String>,
}

#[derive(Clone, PartialEq, Eq, Debug, Serialize, Deserialize)]
pub struct Plan {
    pub scenario: Scenario,
    /// Seed of the run's hash-key stream (the second, independent stream).
    pub hash_seed: u64,
    pub prelude: Prelude,
    pub ops: Vec<Op>,
}

/// The replay file.
#[derive(Clone, Debug, Serialize, Deserialize)]
pub struct Replay {
    pub property: String,
    pub scenario: String,
    pub clause: String,
    pub detail: String,
    pub verif_seed: u64,
    pub run_index: u64,
    pub run_seed: u64,
    pub tier: String,
    pub original_ops: usize,
    pub minimised_ops: usize,
    pub minimiser_executions: u64,
    pub failing_op_index: usize,
    pub plan: Plan,
    /// Clause `process-state-shared` only: histories executed earlier in the same process
    /// (on other contexts) that change what `plan` shows.
    #[serde(default)]
    pub prefix_plans: Vec<Plan>,
}
