//! Parallel, deterministic batch runner; confirmation, minimisation, replay files,
//! known findings and evidence.

use serde::{Deserialize, Serialize};
use serde_json::json;
use std::collections::BTreeMap;
use std::sync::atomic::{AtomicBool, AtomicU64, Ordering};
use std::sync::Arc;
use std::time::{Duration, Instant};

use crate::cfg::CfgSpec;
use crate::cfg::DataKind;
use crate::env::Env;
use crate::exec::{execute, End, ExecOpts, Violation};
use crate::gen::{Gen, Tier};
use crate::plan::{Op, Plan, Replay, Scenario, Sel};
use crate::prng::mix;
use crate::stats::Stats;

pub const DEFAULT_SEED: u64 = 20260926;
pub const TIME_BOUND_NS: u64 = 2_000_000_000;
/// Bytes one call may request from the allocator (cumulative, not live). Set from measurement,
/// see DESIGN.md 0.2.
pub const ALLOC_BOUND_BYTES: u64 = 1 << 30;

#[derive(Clone, Debug, Serialize, Deserialize)]
pub struct KnownFinding {
    pub property: String,
    /// `open` findings are reported as KNOWN-FINDING and do not fail the check;
    /// `fixed` entries are documentation only and suppress nothing.
    pub status: String,
    /// Exact oracle clause.
    #[serde(default)]
    pub clause: String,
    /// Every one of these must occur in the violation's detail text.
    #[serde(default)]
    pub detail_contains: Vec<String>,
    pub what: String,
    #[serde(default)]
    pub commit: String,
}

#[derive(Clone, Debug, Default, Serialize, Deserialize)]
pub struct KnownFindings {
    #[serde(default)]
    pub findings: Vec<KnownFinding>,
}

impl KnownFindings {
    pub fn load(path: &str) -> Result<KnownFindings, String> {
        match std::fs::read(path) {
            Ok(b) => serde_json::from_slice(&b).map_err(|e| format!("{}: {}", path, e)),
            Err(_) => Ok(KnownFindings::default()),
        }
    }

    pub fn matching(&self, property: &str, v: &Violation) -> Option<&KnownFinding> {
        self.findings.iter().find(|f| {
            f.status == "open"
                && f.property == property
                && f.clause == v.clause
                && f.detail_contains.iter().all(|s| v.detail.contains(s))
        })
    }
}

pub fn run_seed(verif_seed: u64, scenario: Scenario, index: u64) -> u64 {
    let p: u64 = scenario.property()[1..].parse().unwrap_or(0);
    mix(&[verif_seed, p, index])
}

pub fn exec_opts(scenario: Scenario, log: bool) -> ExecOpts {
    ExecOpts {
        time_bound_ns: if scenario == Scenario::Crashfree { TIME_BOUND_NS } else { 0 },
        alloc_bound_bytes: if scenario == Scenario::Crashfree { ALLOC_BOUND_BYTES } else { 0 },
        log,
        mirror_base: None,
    }
}

/// Options for re-executing a run whose violation is a slow call. Time is the one oracle that
/// is not a function of the seed, so it gets hysteresis: a call counts as slow in a batch above
/// TIME_BOUND_NS (the worker re-executes the run twice at once and wants half the bound both
/// times), the minimiser keeps a candidate only while its slow call stays above half the bound,
/// and the final single-threaded confirmation and the replay ask for a quarter of it (an idle
/// machine runs memory-bound code more than twice as fast as sixteen busy workers do). A genuine blow-up found at
/// 2.1 s is then not lost because the same call takes 1.9 s next time, and a call that
/// normally takes 0.1 s never qualifies.
pub fn exec_opts_slow(scenario: Scenario, log: bool, num: u64, den: u64) -> ExecOpts {
    let mut o = exec_opts(scenario, log);
    o.time_bound_ns = o.time_bound_ns / den * num;
    o
}

pub struct BatchCfg {
    pub scenario: Scenario,
    pub tier: Tier,
    pub verif_seed: u64,
    pub runs: u64,
    pub workers: usize,
    pub wall_cap: Duration,
    pub first_index: u64,
    /// Debug aid: tally every violation by clause instead of stopping at the first.
    pub tally: bool,
}

pub struct Failure {
    pub index: u64,
    pub plan: Plan,
    pub violation: Violation,
}

pub struct BatchResult {
    pub stats: Stats,
    pub failure: Option<Failure>,
    pub known: BTreeMap<String, (u64, String)>,
    pub harness_error: Option<String>,
    pub digests: Vec<(u64, u64)>,
    pub samples: Vec<(u64, Plan)>,
    pub completed_runs: u64,
    pub wall: Duration,
    pub capped: bool,
}

struct WorkerOut {
    stats: Stats,
    failures: Vec<Failure>,
    known: Vec<(u64, String, String)>,
    harness: Option<String>,
    digests: Vec<(u64, u64)>,
    samples: Vec<(u64, Plan)>,
    completed: u64,
}

pub fn run_batch(env: &Arc<Env>, known: &Arc<KnownFindings>, cfg: &BatchCfg) -> BatchResult {
    let t0 = Instant::now();
    let min_fail = Arc::new(AtomicU64::new(u64::MAX));
    let capped = Arc::new(AtomicBool::new(false));
    let mut handles = Vec::new();
    let workers = cfg.workers.max(1);
    for w in 0..workers {
        let env = env.clone();
        let known = known.clone();
        let min_fail = min_fail.clone();
        let capped = capped.clone();
        let scenario = cfg.scenario;
        let tier = cfg.tier;
        let verif_seed = cfg.verif_seed;
        let runs = cfg.runs;
        let first = cfg.first_index;
        let wall_cap = cfg.wall_cap;
        let tally = cfg.tally;
        let h = std::thread::Builder::new()
            .name(format!("sim-{}", w))
            .stack_size(64 << 20)
            .spawn(move || {
                let mut out = WorkerOut {
                    stats: Stats::default(),
                    failures: Vec::new(),
                    known: Vec::new(),
                    harness: None,
                    digests: Vec::new(),
                    samples: Vec::new(),
                    completed: 0,
                };
                crate::watch::set_worker(w);
                crate::watch::install_thread_altstack();
                let mut i = first + w as u64;
                while i < first + runs {
                    if i > min_fail.load(Ordering::SeqCst) {
                        break;
                    }
                    if t0.elapsed() > wall_cap {
                        capped.store(true, Ordering::SeqCst);
                        break;
                    }
                    let seed = run_seed(verif_seed, scenario, i);
                    crate::watch::begin_run(i);
                    let plan = Gen::new(&env, seed, tier).plan(scenario);
                    let (ops0, ev0) = (out.stats.ops, out.stats.evaluations);
                    let (o, _) = execute(&env, &plan, &mut out.stats, exec_opts(scenario, false));
                    crate::watch::end_run(out.stats.ops - ops0, out.stats.evaluations - ev0, out.stats.states.len() as u64);
                    out.digests.push((i, o.digest));
                    out.completed += 1;
                    if out.samples.len() < 2 && plan.ops.len() <= 40 && matches!(o.end, End::Ok) {
                        out.samples.push((i, plan.clone()));
                    }
                    match o.end {
                        End::Ok | End::Inconclusive(_) => {}
                        End::Harness(why) => {
                            out.harness = Some(format!("run {}: {}", i, why));
                            min_fail.fetch_min(i, Ordering::SeqCst);
                            break;
                        }
                        End::Violation(v) => {
                            if tally {
                                out.known.push((i, format!("TALLY {}", v.clause), format!("run {}: {}", i, v.detail)));
                            } else if let Some(k) = known.matching(scenario.property(), &v) {
                                out.known.push((i, k.what.clone(), v.detail.clone()));
                                out.stats.bump("known_finding_hits");
                            } else if v.clause == "time-bound" && !{
                                // Time is not a function of the seed: a suspicion counts only
                                // if the same run shows a slow call again, twice, right here
                                // (same thread, same machine load), at half the bound. An
                                // unconfirmed suspicion must not mask later runs.
                                let mut again = 0;
                                for _ in 0..2 {
                                    let mut st = Stats::default();
                                    let (o2, _) = execute(&env, &plan, &mut st, exec_opts_slow(scenario, false, 1, 2));
                                    if matches!(&o2.end, End::Violation(v2) if v2.clause == "time-bound" || v2.clause == "cost-bound") {
                                        again += 1;
                                    }
                                }
                                again == 2
                            } {
                                out.stats.bump("time_bound_suspicion_not_confirmed");
                            } else {
                                min_fail.fetch_min(i, Ordering::SeqCst);
                                out.failures.push(Failure { index: i, plan, violation: v });
                            }
                        }
                    }
                    i += workers as u64;
                }
                out
            })
            .expect("spawn worker");
        handles.push(h);
    }
    let mut stats = Stats::default();
    let mut failures: Vec<Failure> = Vec::new();
    let mut known_hits: BTreeMap<String, (u64, String)> = BTreeMap::new();
    let mut harness = None;
    let mut digests = Vec::new();
    let mut samples = Vec::new();
    let mut completed = 0;
    for h in handles {
        match h.join() {
            Ok(out) => {
                stats.merge(&out.stats);
                failures.extend(out.failures);
                for (_, what, detail) in out.known {
                    let e = known_hits.entry(what).or_insert((0, detail));
                    e.0 += 1;
                }
                if harness.is_none() {
                    harness = out.harness;
                }
                digests.extend(out.digests);
                samples.extend(out.samples);
                completed += out.completed;
            }
            Err(_) => harness = Some("a simulator worker thread panicked (harness bug)".into()),
        }
    }
    failures.sort_by_key(|f| f.index);
    digests.sort();
    samples.sort_by_key(|s| s.0);
    samples.truncate(3);
    BatchResult {
        stats,
        failure: failures.into_iter().next(),
        known: known_hits,
        harness_error: harness,
        digests,
        samples,
        completed_runs: completed,
        wall: t0.elapsed(),
        capped: capped.load(Ordering::SeqCst),
    }
}

// ---------------------------------------------------------------------- minimisation

pub struct Minimised {
    pub plan: Plan,
    pub violation: Violation,
    pub executions: u64,
}

fn fails_same(env: &Env, plan: &Plan, clause: &str, execs: &mut u64) -> Option<Violation> {
    *execs += 1;
    let mut st = Stats::default();
    let opts = if clause == "time-bound" { exec_opts_slow(plan.scenario, false, 1, 2) } else { exec_opts(plan.scenario, false) };
    let (o, _) = execute(env, plan, &mut st, opts);
    match o.end {
        End::Violation(v) if v.clause == clause => Some(v),
        _ => None,
    }
}

fn simpler_cfgs(c: &CfgSpec) -> Vec<CfgSpec> {
    // (the data profile is simplified for the whole plan at once, see minimise)
    let mut v = Vec::new();
    for b in 0..11 {
        if c.opts & (1 << b) != 0 {
            v.push(CfgSpec { opts: c.opts & !(1 << b), ..*c });
        }
    }
    v
}

pub fn minimise(env: &Env, plan: &Plan, v0: &Violation, max_execs: u64, max_time: Duration) -> Minimised {
    let t0 = Instant::now();
    let mut execs = 0u64;
    let clause = v0.clause.clone();
    let mut best = plan.clone();
    let mut best_v = v0.clone();
    // never look past the failing op
    if best_v.op_index + 1 < best.ops.len() {
        let mut p = best.clone();
        p.ops.truncate(best_v.op_index + 1);
        if let Some(v) = fails_same(env, &p, &clause, &mut execs) {
            best = p;
            best_v = v;
        }
    }
    let budget_ok = |execs: u64| execs < max_execs && t0.elapsed() < max_time;

    // ddmin over the op list. The unit of removal is one op, except in the scenario whose
    // oracle relates two hosts' key sequences (C14): there a whole syllable group (both
    // hosts' keys up to the comparison mark) is the unit, so that every candidate is
    // still "the same syllables typed in both orders".
    let atomic_groups = plan.scenario == Scenario::KarOrderEquiv;
    let units = |p: &Plan| -> Vec<(usize, usize)> {
        if !atomic_groups {
            return (0..p.ops.len()).map(|i| (i, i + 1)).collect();
        }
        let mut v = Vec::new();
        let mut start = 0;
        let terminator = |op: &Op| matches!(op, Op::Finish { .. } | Op::Commit { .. } | Op::Bs { ctrl: true, .. });
        for (i, op) in p.ops.iter().enumerate() {
            // (the terminators of both hosts at the end of a word stay together: a word that is
            // ended on one side only is not "the same syllables in both orders" any more)
            let boundary = matches!(op, Op::Mark { tag: 1 } | Op::Spawn { .. })
                || (terminator(op) && !p.ops.get(i + 1).map(|n| terminator(n)).unwrap_or(false));
            if boundary {
                v.push((start, i + 1));
                start = i + 1;
            }
        }
        if start < p.ops.len() {
            v.push((start, p.ops.len()));
        }
        v
    };
    let mut chunk = (units(&best).len() / 2).max(1);
    loop {
        let mut removed_any = false;
        let mut i = 0;
        loop {
            let u = units(&best);
            if i >= u.len() || !budget_ok(execs) {
                break;
            }
            let end = (i + chunk).min(u.len());
            if end - i >= u.len() {
                i += chunk;
                continue;
            }
            let mut p = best.clone();
            p.ops.drain(u[i].0..u[end - 1].1);
            if let Some(v) = fails_same(env, &p, &clause, &mut execs) {
                best = p;
                best_v = v;
                removed_any = true;
            } else {
                i += chunk;
            }
        }
        if !budget_ok(execs) {
            break;
        }
        if chunk == 1 {
            if !removed_any {
                break;
            }
        } else {
            chunk = (chunk / 2).max(1);
        }
    }

    // per-op simplification
    let mut progress = true;
    while progress && budget_ok(execs) {
        progress = false;
        if atomic_groups {
            // C14's premise: both hosts have identical settings except the option under
            // test, so a setting is only ever cleared on both hosts at once
            for b in 0..11u16 {
                if (1 << b) == crate::cfg::KAR_ORDER || !budget_ok(execs) {
                    continue;
                }
                let mut p = best.clone();
                let mut changed = false;
                for op in p.ops.iter_mut() {
                    if let Op::Spawn { cfg, .. } | Op::Update { cfg, .. } = op {
                        if cfg.opts & (1 << b) != 0 {
                            cfg.opts &= !(1 << b);
                            changed = true;
                        }
                    }
                }
                if changed {
                    if let Some(v) = fails_same(env, &p, &clause, &mut execs) {
                        best = p;
                        best_v = v;
                    }
                }
            }
            break;
        }
        for i in 0..best.ops.len() {
            if !budget_ok(execs) {
                break;
            }
            let mut cands: Vec<Op> = Vec::new();
            match &best.ops[i] {
                Op::Key { h, key, m, sel } => {
                    if *m != 0 {
                        cands.push(Op::Key { h: *h, key: *key, m: 0, sel: *sel });
                    }
                    if *sel != Sel::Raw(0) {
                        cands.push(Op::Key { h: *h, key: *key, m: *m, sel: Sel::Raw(0) });
                    }
                }
                Op::Spawn { h, cfg } => {
                    for c in simpler_cfgs(cfg) {
                        cands.push(Op::Spawn { h: *h, cfg: c });
                    }
                }
                Op::Update { h, cfg } => {
                    for c in simpler_cfgs(cfg) {
                        cands.push(Op::Update { h: *h, cfg: c });
                    }
                }
                _ => {}
            }
            for c in cands {
                if !budget_ok(execs) {
                    break;
                }
                let mut p = best.clone();
                p.ops[i] = c;
                if let Some(v) = fails_same(env, &p, &clause, &mut execs) {
                    best = p;
                    best_v = v;
                    progress = true;
                    break;
                }
            }
        }
        // the data profile, for all hosts and updates at once (update_engine's contract is
        // "same data directory", so it is never changed on one op only)
        for target in [DataKind::None, DataKind::Small] {
            if !budget_ok(execs) {
                break;
            }
            let mut p = best.clone();
            let mut changed = false;
            for op in p.ops.iter_mut() {
                if let Op::Spawn { cfg, .. } | Op::Update { cfg, .. } = op {
                    let simpler = matches!((cfg.data, target), (DataKind::Full, _) | (DataKind::Big, _) | (DataKind::Small, DataKind::None));
                    if simpler {
                        cfg.data = target;
                        changed = true;
                    }
                }
            }
            if changed {
                if let Some(v) = fails_same(env, &p, &clause, &mut execs) {
                    best = p;
                    best_v = v;
                    progress = true;
                    break;
                }
            }
        }
        // prelude
        if best.prelude.store.is_some() && budget_ok(execs) {
            let mut p = best.clone();
            p.prelude.store = None;
            if let Some(v) = fails_same(env, &p, &clause, &mut execs) {
                best = p;
                best_v = v;
                progress = true;
            }
        }
        if best.prelude.autocorrect.is_some() && budget_ok(execs) {
            let mut p = best.clone();
            p.prelude.autocorrect = None;
            if let Some(v) = fails_same(env, &p, &clause, &mut execs) {
                best = p;
                best_v = v;
                progress = true;
            }
        }
        // one more single-op removal pass after simplification
        let mut i = 0;
        while i < best.ops.len() && budget_ok(execs) && !atomic_groups {
            if best.ops.len() == 1 {
                break;
            }
            let mut p = best.clone();
            p.ops.remove(i);
            if let Some(v) = fails_same(env, &p, &clause, &mut execs) {
                best = p;
                best_v = v;
                progress = true;
            } else {
                i += 1;
            }
        }
    }
    Minimised { plan: best, violation: best_v, executions: execs }
}

// ---------------------------------------------------------------------- reporting

pub fn describe_plan(env: &Env, plan: &Plan) -> Vec<String> {
    plan.ops
        .iter()
        .map(|op| match op {
            Op::Key { h, key, m, sel } => {
                let name = env.keys.def(*key).map(|d| d.name.clone()).unwrap_or_else(|| format!("0x{:04X}", key));
                format!("h{} key {} m={} sel={:?}", h, name, m, sel)
            }
            Op::Spawn { h, cfg } => format!("h{} spawn {}", h, cfg.describe()),
            Op::Update { h, cfg } => format!("h{} update {}", h, cfg.describe()),
            other => format!("{:?}", other),
        })
        .collect()
}

pub fn write_replay(
    env: &Env,
    verif: &str,
    cfg: &BatchCfg,
    index: u64,
    original_ops: usize,
    m: &Minimised,
) -> Result<String, String> {
    let prop = cfg.scenario.property();
    let dir = format!("{}/replays/{}", verif, prop);
    std::fs::create_dir_all(&dir).map_err(|e| format!("{}: {}", dir, e))?;
    let rep = Replay {
        property: prop.to_string(),
        scenario: cfg.scenario.name().to_string(),
        clause: m.violation.clause.clone(),
        detail: m.violation.detail.clone(),
        verif_seed: cfg.verif_seed,
        run_index: index,
        run_seed: run_seed(cfg.verif_seed, cfg.scenario, index),
        tier: format!("{:?}", cfg.tier).to_lowercase(),
        original_ops,
        minimised_ops: m.plan.ops.len(),
        minimiser_executions: m.executions,
        failing_op_index: m.violation.op_index,
        plan: m.plan.clone(),
        prefix_plans: Vec::new(),
    };
    let mut v = serde_json::to_value(&rep).map_err(|e| e.to_string())?;
    v["readable_ops"] = json!(describe_plan(env, &m.plan));
    let text = serde_json::to_string_pretty(&v).map_err(|e| e.to_string())?;
    let digest = crate::prng::fnv(text.as_bytes());
    let path = format!("{}/{}-{}-{:08x}.json", dir, cfg.verif_seed, index, digest as u32);
    std::fs::write(&path, text).map_err(|e| format!("{}: {}", path, e))?;
    Ok(path)
}

pub fn tier_name(t: Tier) -> &'static str {
    match t {
        Tier::Quick => "quick",
        Tier::Thorough => "thorough",
    }
}

pub struct EvidenceExtra {
    pub level: &'static str,
    pub rule: String,
    pub assumptions: Vec<String>,
    pub extra: serde_json::Value,
}

pub fn write_evidence(
    env: &Env,
    verif: &str,
    cfg: &BatchCfg,
    res: &BatchResult,
    violations: u64,
    determinism_resampled: (u64, u64),
    ex: &EvidenceExtra,
) -> Result<String, String> {
    let prop = cfg.scenario.property();
    let st = &res.stats;
    let wall = res.wall.as_secs_f64();
    let samples: Vec<serde_json::Value> = res
        .samples
        .iter()
        .map(|(i, p)| {
            json!({
                "run_index": i,
                "run_seed": run_seed(cfg.verif_seed, cfg.scenario, *i),
                "prelude": p.prelude,
                "ops": describe_plan(env, p),
            })
        })
        .collect();
    let probes = st.with_prefix("probe.");
    let faults = st.with_prefix("fault.");
    let oracle = st.with_prefix("oracle.");
    let ops = st.with_prefix("op.");
    let skipped = st.with_prefix("skipped.");
    let unspecified = st.with_prefix("unspecified.");
    let info = st.with_prefix("info.");
    let panics = st.with_prefix("panic_site.");
    let mut coverage = json!({
        "evaluations": st.evaluations,
        "distinct_nontrivial": st.states.len(),
        "rule": ex.rule,
        "samples": samples,
        "runs": res.completed_runs,
        "runs_requested": cfg.runs,
        "stopped_by_wall_cap": res.capped,
        "ops_executed": st.ops,
        "ops_by_kind": ops,
        "ops_skipped_out_of_contract": skipped,
        "runs_per_hour": if wall > 0.0 { (res.completed_runs as f64 / wall * 3600.0) as u64 } else { 0 },
        "seeds_per_hour": if wall > 0.0 { (res.completed_runs as f64 / wall * 3600.0) as u64 } else { 0 },
        "sim_time_s": st.sim_time_ns as f64 / 1e9,
        "faults_injected": faults,
        "distinct_interleavings": st.interleavings.len(),
        "distinct_interleavings_measure": "hash of the <actor, op-kind> sequence of a run",
        "distinct_states_measure": "hash of <host, layout, data profile, option bits, parsed store, full observation (variant, auxiliary text, candidates, preselection, pre-edit texts, session flag)>, counted only for non-empty suggestions",
        "probes": probes,
        "oracle_clauses_judged": oracle,
        "unspecified_steps": unspecified,
        "informational": info,
        "inconclusive_runs": st.get("inconclusive_runs"),
        "panic_sites_seen": panics,
        "known_finding_hits": st.get("known_finding_hits"),
        "simulated_disk": {
            "reads_served": st.get("disk.reads_served"),
            "opens_served": st.get("disk.opens_served"),
            "writes_served": st.get("disk.writes_served"),
        },
        "max_call_ms": st.max_call_ns as f64 / 1e6,
        "max_call_allocated_bytes": st.max_call_alloc,
        "determinism_resampled": {"runs_re_executed_single_threaded": determinism_resampled.0, "digest_mismatches": determinism_resampled.1},
        "workers": cfg.workers,
        "real_vs_stub": {
            "real": "all of riti (context, both methods, suggestion, data, config, keycodes, utility, the C configuration setters), okkhor, regex, serde_json, emojicon, poriborton, edit-distance; bundled data and layout files via the real std::fs",
            "stub": "std::fs and mtime for the two per-user files (SimDisk behind the verif_hooks seam), OS entropy (getrandom custom backend), ahash per-map keys (per-run stream), the front-end, the auto-correct editor, process death/restart (drop + new context over the surviving disk)"
        },
    });
    if let (Some(c), Some(e)) = (coverage.as_object_mut(), ex.extra.as_object()) {
        for (k, v) in e {
            c.insert(k.clone(), v.clone());
        }
    }
    let ev = json!({
        "property_id": prop,
        "tier": tier_name(cfg.tier),
        "seed": cfg.verif_seed,
        "level": ex.level,
        "coverage": coverage,
        "assumptions": ex.assumptions,
        "wall_s": wall,
        "violations": violations,
    });
    let dir = format!("{}/evidence", verif);
    std::fs::create_dir_all(&dir).map_err(|e| format!("{}: {}", dir, e))?;
    let path = format!("{}/{}.json", dir, prop);
    let tmp = format!("{}.{}.tmp", path, std::process::id());
    std::fs::write(&tmp, serde_json::to_string_pretty(&ev).unwrap()).map_err(|e| format!("{}: {}", tmp, e))?;
    std::fs::rename(&tmp, &path).map_err(|e| format!("{}: {}", path, e))?;
    Ok(path)
}
