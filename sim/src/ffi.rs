//! C19: life cycles over the 33 exported C functions, executed by a child process built
//! with AddressSanitizer/LeakSanitizer. The parent generates explicit plans, writes them
//! to disk *before* they are executed (a sanitizer report aborts the child), turns a dead
//! child into a violation, minimises by re-running children on sub-plans and writes the
//! replay file.

use riti::config::Config;
use riti::context::RitiContext;
use riti::suggestion::Suggestion;
use serde::{Deserialize, Serialize};
use std::alloc::{GlobalAlloc, Layout, System};
use std::collections::HashSet;
use std::ffi::{CStr, CString};
use std::os::raw::c_char;
use std::cell::Cell;

use crate::cfg::*;
use crate::disk::SimDisk;
use crate::env::Env;
use crate::host::{observe, Obs, ObsKind};
use crate::prng::{fnv_add, Rng};

#[allow(improper_ctypes)]
extern "C" {
    fn riti_context_new_with_config(ptr: *const Config) -> *mut RitiContext;
    fn riti_context_free(ptr: *mut RitiContext);
    fn riti_get_suggestion_for_key(ptr: *mut RitiContext, key: u16, modifier: u8, selection: u8) -> *mut Suggestion;
    fn riti_context_candidate_committed(ptr: *mut RitiContext, index: usize);
    fn riti_context_update_engine(ptr: *mut RitiContext, config: *const Config);
    fn riti_context_ongoing_input_session(ptr: *mut RitiContext) -> bool;
    fn riti_context_finish_input_session(ptr: *mut RitiContext);
    fn riti_context_backspace_event(ptr: *mut RitiContext, ctrl: bool) -> *mut Suggestion;
    fn riti_suggestion_free(ptr: *mut Suggestion);
    fn riti_suggestion_get_suggestion(ptr: *const Suggestion, index: usize) -> *mut c_char;
    fn riti_suggestion_get_lonely_suggestion(ptr: *const Suggestion) -> *mut c_char;
    fn riti_suggestion_get_auxiliary_text(ptr: *const Suggestion) -> *mut c_char;
    fn riti_suggestion_get_pre_edit_text(ptr: *const Suggestion, index: usize) -> *mut c_char;
    fn riti_string_free(ptr: *mut c_char);
    fn riti_suggestion_previously_selected_index(ptr: *const Suggestion) -> usize;
    fn riti_suggestion_get_length(ptr: *const Suggestion) -> usize;
    fn riti_suggestion_is_lonely(ptr: *const Suggestion) -> bool;
    fn riti_suggestion_is_empty(ptr: *const Suggestion) -> bool;
}

// ---------------------------------------------------------------- counting allocator

pub struct Counting;

thread_local! {
    // const-initialised, no destructor: safe to touch from inside the allocator
    static LIVE_ALLOCS: Cell<i64> = const { Cell::new(0) };
    static LIVE_BYTES: Cell<i64> = const { Cell::new(0) };
    // everything the thread ever asked for (never decreases): the cost probe of C01
    static TOTAL_BYTES: Cell<u64> = const { Cell::new(0) };
}

#[inline]
fn account(allocs: i64, bytes: i64) {
    let _ = LIVE_ALLOCS.try_with(|c| c.set(c.get() + allocs));
    let _ = LIVE_BYTES.try_with(|c| c.set(c.get() + bytes));
    if bytes > 0 {
        let _ = TOTAL_BYTES.try_with(|c| c.set(c.get().wrapping_add(bytes as u64)));
    }
}

/// Bytes the calling thread has requested from the allocator so far (cumulative).
pub fn total_allocated() -> u64 {
    TOTAL_BYTES.with(|c| c.get())
}

/// (live allocations, live bytes) made by the calling thread and not yet freed by it.
pub fn live() -> (i64, i64) {
    (LIVE_ALLOCS.with(|c| c.get()), LIVE_BYTES.with(|c| c.get()))
}

unsafe impl GlobalAlloc for Counting {
    unsafe fn alloc(&self, l: Layout) -> *mut u8 {
        let p = System.alloc(l);
        if !p.is_null() {
            account(1, l.size() as i64);
        }
        p
    }
    unsafe fn dealloc(&self, p: *mut u8, l: Layout) {
        account(-1, -(l.size() as i64));
        System.dealloc(p, l)
    }
    unsafe fn alloc_zeroed(&self, l: Layout) -> *mut u8 {
        let p = System.alloc_zeroed(l);
        if !p.is_null() {
            account(1, l.size() as i64);
        }
        p
    }
    unsafe fn realloc(&self, p: *mut u8, l: Layout, new: usize) -> *mut u8 {
        let q = System.realloc(p, l, new);
        if !q.is_null() {
            account(0, new as i64 - l.size() as i64);
        }
        q
    }
}

// ---------------------------------------------------------------- plan

#[derive(Clone, Copy, PartialEq, Eq, Debug, Serialize, Deserialize)]
pub enum Getter {
    Aux,
    Cand(u8),
    Pre(u8),
    Lonely,
}

#[derive(Clone, PartialEq, Eq, Debug, Serialize, Deserialize)]
pub enum FOp {
    /// riti_config_new + all 13 setters.
    ConfigNew { c: u8, spec: CfgSpec },
    /// One setter on a live config (the 11 boolean setters).
    ConfigSet { c: u8, bit: u8, on: bool },
    ConfigFree { c: u8 },
    /// A path setter with a well-formed path that does not exist: must answer false and
    /// leave the config as it was (and alive).
    ConfigBadPath { c: u8, layout: bool },
    CtxNew { x: u8, c: u8 },
    CtxFree { x: u8 },
    Key { x: u8, key: u16, m: u8, sel: u8, s: u8 },
    Bs { x: u8, ctrl: bool, s: u8 },
    /// index = r mod len(most recently returned suggestion of that context)
    Commit { x: u8, r: u8 },
    Finish { x: u8 },
    Ongoing { x: u8 },
    /// riti_context_update_engine with config c (only while idle).
    Update { x: u8, c: u8 },
    /// Read everything out of suggestion s through the matching getters and compare with
    /// what was read when it was created (the context may have moved on or be gone).
    ReadAll { s: u8 },
    /// Keep one returned string alive in pool slot t.
    Hold { s: u8, g: Getter, t: u8 },
    /// Verify the held string still has its bytes, then riti_string_free it.
    Release { t: u8 },
    SugFree { s: u8 },
    /// riti_string_free(NULL) and the other frees with NULL.
    NullFrees,
}

#[derive(Clone, Debug, Serialize, Deserialize)]
pub struct FPlan {
    pub hash_seed: u64,
    pub ops: Vec<FOp>,
    /// The user's auto-correct list on the disk every context starts from (hex; none when
    /// absent). May hold bytes that are not UTF-8 inside a string value.
    #[serde(default)]
    pub user_list_hex: Option<String>,
}

#[derive(Clone, Debug, Serialize, Deserialize)]
pub struct FReplay {
    pub property: String,
    pub scenario: String,
    pub clause: String,
    pub detail: String,
    pub verif_seed: u64,
    pub run_index: u64,
    pub original_ops: usize,
    pub minimised_ops: usize,
    pub plan: FPlan,
    /// Life cycles executed before `plan` in the same child process (only for violations that
    /// depend on the state of the system allocator's heap: `plain-allocator/...` clauses whose
    /// life cycle does not reproduce alone).
    #[serde(default)]
    pub prefix_plans: Vec<FPlan>,
}

const NC: usize = 3;
const NX: usize = 2;
const NS: usize = 6;
const NT: usize = 8;

pub fn gen_plan(env: &Env, seed: u64, thorough: bool) -> FPlan {
    let mut rng = Rng::new(seed);
    let mut ops = Vec::new();
    let spec = |rng: &mut Rng| -> CfgSpec {
        let layout = match rng.weighted(&[50, 15, 35]) {
            0 => LayoutKind::Phonetic,
            1 => LayoutKind::Probhat,
            _ => LayoutKind::Synthetic,
        };
        let mut opts = (rng.next_u64() as u16) & ALL_OPTS;
        if rng.pct(70) {
            opts |= PHON_SUG | FIXED_SUG;
        }

        let data = match rng.weighted(&[2, 68, 30]) {
            0 => DataKind::Full,
            1 => DataKind::Small,
            _ => DataKind::None,
        };
        CfgSpec { layout, data, opts }
    };
    let mut cfg_live = [false; NC];
    let mut cfg_spec = [None::<CfgSpec>; NC];
    let mut ctx_live = [false; NX];
    let mut ctx_spec = [None::<CfgSpec>; NX];
    let mut sug_live = [false; NS];
    let mut str_live = [false; NT];
    let s0 = spec(&mut rng);
    ops.push(FOp::ConfigNew { c: 0, spec: s0 });
    cfg_live[0] = true;
    cfg_spec[0] = Some(s0);
    ops.push(FOp::CtxNew { x: 0, c: 0 });
    ctx_live[0] = true;
    ctx_spec[0] = Some(s0);
    let n = rng.range(20, if thorough { 110 } else { 80 });
    let letters = b"abcdefghijklmnopqrstuvwxyz";
    let words: Vec<&String> = env.dict_spellings.iter().take(400).collect();
    let mut pending_word: Vec<(u16, u8)> = Vec::new();
    // (bursts of fixed-layout keys come from the composition scenarios' generator)
    let mut burst_gen = crate::gen::Gen::new(env, rng.next_u64(), crate::gen::Tier::Quick);
    for _ in 0..n {
        let live_ctx: Vec<usize> = (0..NX).filter(|i| ctx_live[*i]).collect();
        let live_sug: Vec<usize> = (0..NS).filter(|i| sug_live[*i]).collect();
        let live_cfg: Vec<usize> = (0..NC).filter(|i| cfg_live[*i]).collect();
        let live_str: Vec<usize> = (0..NT).filter(|i| str_live[*i]).collect();
        let k = rng.weighted(&[38, 6, 2, 6, 3, 3, 3, 10, 7, 6, 6, 2, 2, 2, 2, 2]);
        match k {
            0 if !live_ctx.is_empty() => {
                let x = *rng.pick(&live_ctx);
                let sp = ctx_spec[x].unwrap();
                let mut burst_m: Option<u8> = None;
                let key = if !pending_word.is_empty() {
                    let (k, m) = pending_word.remove(0);
                    burst_m = Some(m);
                    k
                } else if rng.pct(12) {
                    let w = rng.pick(&words);
                    pending_word = env.keys.codes_for(w).into_iter().map(|k| (k, 0u8)).collect();
                    pending_word.remove(0).0
                } else if rng.pct(3) {
                    // one composition of several dozen keys, typed without anything in between
                    // (candidates and pre-edit texts of a hundred bytes and more), read out
                    // completely at the end
                    let n = rng.range(30, 60) as usize;
                    let mut keys: Vec<(u16, u8)> = match env.layout(sp.layout) {
                        Some(l) => {
                            let mut v = Vec::new();
                            while v.len() < n {
                                v.extend(burst_gen.fixed_sharp_burst(l));
                            }
                            v
                        }
                        None => (0..n).map(|_| (env.keys.code_for(*rng.pick(letters) as char).unwrap(), 0u8)).collect(),
                    };
                    let last = keys.pop().unwrap();
                    let s = rng.usize(NS);
                    for (k, m) in keys {
                        if sug_live[s] {
                            ops.push(FOp::SugFree { s: s as u8 });
                        }
                        sug_live[s] = true;
                        let m = if sp.has(ANSI) && !sp.is_phonetic() { m & 1 } else { m };
                        ops.push(FOp::Key { x: x as u8, key: k, m, sel: 0, s: s as u8 });
                        if rng.pct(8) {
                            ops.push(FOp::ReadAll { s: s as u8 });
                        }
                    }
                    if sug_live[s] {
                        ops.push(FOp::ReadAll { s: s as u8 });
                    }
                    burst_m = Some(last.1);
                    last.0
                } else if !sp.is_phonetic() && rng.pct(35) && env.layout(sp.layout).is_some() {
                    // the states the fixed composer distinguishes x the key classes that meet
                    // them specially (strings with joiners, waiting signs, odd vowel signs)
                    pending_word = burst_gen.fixed_sharp_burst(env.layout(sp.layout).unwrap());
                    if pending_word.is_empty() {
                        env.keys.code_for(*rng.pick(letters) as char).unwrap()
                    } else {
                        let (k, m) = pending_word.remove(0);
                        burst_m = Some(m);
                        k
                    }
                } else if sp.is_phonetic() || rng.pct(60) {
                    env.keys.code_for(*rng.pick(letters) as char).unwrap()
                } else {
                    env.keys.keys[rng.usize(env.keys.keys.len())].code
                };
                let s = rng.usize(NS);
                if sug_live[s] {
                    // the old suggestion in this slot is freed first, or kept in another slot
                    ops.push(FOp::SugFree { s: s as u8 });
                }
                sug_live[s] = true;
                let mut m = if rng.pct(80) { 0 } else { rng.next_u64() as u8 & 3 };
                if let Some(bm) = burst_m {
                    m = bm;
                }
                if sp.has(ANSI) && !sp.is_phonetic() {
                    // the known third-party encoder panic (C02 finding: ANSI + VOCALIC RR sign,
                    // which both fixed layouts have on an AltGr plane) would abort the child
                    m &= 1;
                }
                ops.push(FOp::Key { x: x as u8, key, m, sel: 0, s: s as u8 });
            }
            1 if !live_ctx.is_empty() => {
                let x = *rng.pick(&live_ctx);
                let s = rng.usize(NS);
                if sug_live[s] {
                    ops.push(FOp::SugFree { s: s as u8 });
                }
                sug_live[s] = true;
                ops.push(FOp::Bs { x: x as u8, ctrl: false, s: s as u8 });
            }
            2 if !live_ctx.is_empty() => {
                let x = *rng.pick(&live_ctx);
                let s = rng.usize(NS);
                if sug_live[s] {
                    ops.push(FOp::SugFree { s: s as u8 });
                }
                sug_live[s] = true;
                ops.push(FOp::Bs { x: x as u8, ctrl: true, s: s as u8 });
            }
            3 if !live_ctx.is_empty() => {
                pending_word.clear();
                ops.push(FOp::Commit { x: *rng.pick(&live_ctx) as u8, r: rng.next_u64() as u8 });
            }
            4 if !live_ctx.is_empty() => {
                pending_word.clear();
                ops.push(FOp::Finish { x: *rng.pick(&live_ctx) as u8 });
            }
            5 if !live_ctx.is_empty() => ops.push(FOp::Ongoing { x: *rng.pick(&live_ctx) as u8 }),
            6 if !live_ctx.is_empty() && !live_cfg.is_empty() => {
                let x = *rng.pick(&live_ctx);
                let c = *rng.pick(&live_cfg);
                // same data directory is the contract of update_engine
                if cfg_spec[c].unwrap().data == ctx_spec[x].unwrap().data {
                    pending_word.clear();
                    ops.push(FOp::Finish { x: x as u8 });
                    ops.push(FOp::Update { x: x as u8, c: c as u8 });
                    ctx_spec[x] = cfg_spec[c];
                }
            }
            7 if !live_sug.is_empty() => ops.push(FOp::ReadAll { s: *rng.pick(&live_sug) as u8 }),
            8 if !live_sug.is_empty() => {
                let s = *rng.pick(&live_sug);
                let t = rng.usize(NT);
                if str_live[t] {
                    ops.push(FOp::Release { t: t as u8 });
                }
                str_live[t] = true;
                let g = match rng.weighted(&[25, 30, 30, 15]) {
                    0 => Getter::Aux,
                    1 => Getter::Cand(rng.next_u64() as u8),
                    2 => Getter::Pre(rng.next_u64() as u8),
                    _ => Getter::Lonely,
                };
                ops.push(FOp::Hold { s: s as u8, g, t: t as u8 });
            }
            9 if !live_str.is_empty() => {
                let t = *rng.pick(&live_str);
                str_live[t] = false;
                ops.push(FOp::Release { t: t as u8 });
            }
            10 if !live_sug.is_empty() => {
                let s = *rng.pick(&live_sug);
                sug_live[s] = false;
                ops.push(FOp::SugFree { s: s as u8 });
            }
            11 => {
                let c = rng.usize(NC);
                if cfg_live[c] {
                    ops.push(FOp::ConfigFree { c: c as u8 });
                }
                let mut sp = spec(&mut rng);
                if rng.pct(60) {
                    sp.data = s0.data;
                }
                ops.push(FOp::ConfigNew { c: c as u8, spec: sp });
                cfg_live[c] = true;
                cfg_spec[c] = Some(sp);
            }
            12 if !live_cfg.is_empty() => {
                let c = *rng.pick(&live_cfg);
                let bit = rng.below(11) as u8;
                let on = rng.coin();
                let sp = cfg_spec[c].unwrap().with(1 << bit, on);
                cfg_spec[c] = Some(sp);
                ops.push(FOp::ConfigSet { c: c as u8, bit, on });
            }
            12 | 13 if !live_cfg.is_empty() && rng.pct(35) => {
                ops.push(FOp::ConfigBadPath { c: *rng.pick(&live_cfg) as u8, layout: rng.coin() });
            }
            13 if live_cfg.len() > 1 || (live_cfg.len() == 1 && rng.pct(30)) => {
                // a config may be freed while contexts made from it live on
                let c = *rng.pick(&live_cfg);
                cfg_live[c] = false;
                ops.push(FOp::ConfigFree { c: c as u8 });
            }
            14 => {
                let x = rng.usize(NX);
                if ctx_live[x] {
                    // suggestions of this context stay alive
                    ops.push(FOp::CtxFree { x: x as u8 });
                    ctx_live[x] = false;
                    pending_word.clear();
                } else if !live_cfg.is_empty() {
                    let c = *rng.pick(&live_cfg);
                    ops.push(FOp::CtxNew { x: x as u8, c: c as u8 });
                    ctx_live[x] = true;
                    ctx_spec[x] = cfg_spec[c];
                }
            }
            15 => ops.push(FOp::NullFrees),
            _ => {}
        }
    }
    // the end of the life cycle: everything is freed, in a seeded order
    let mut tail: Vec<FOp> = Vec::new();
    for t in 0..NT {
        if str_live[t] {
            tail.push(FOp::Release { t: t as u8 });
        }
    }
    for s in 0..NS {
        if sug_live[s] {
            if rng.coin() {
                tail.push(FOp::ReadAll { s: s as u8 });
            }
            tail.push(FOp::SugFree { s: s as u8 });
        }
    }
    for x in 0..NX {
        if ctx_live[x] {
            tail.push(FOp::CtxFree { x: x as u8 });
        }
    }
    for c in 0..NC {
        if cfg_live[c] {
            tail.push(FOp::ConfigFree { c: c as u8 });
        }
    }
    // shuffle, but a ReadAll must stay before the SugFree of the same slot
    for i in (1..tail.len()).rev() {
        let j = rng.usize(i + 1);
        tail.swap(i, j);
    }
    let mut fixed: Vec<FOp> = Vec::new();
    let mut freed: HashSet<u8> = HashSet::new();
    for op in tail {
        match &op {
            FOp::ReadAll { s } if freed.contains(s) => {}
            FOp::SugFree { s } => {
                freed.insert(*s);
                fixed.push(op);
            }
            _ => fixed.push(op),
        }
    }
    ops.extend(fixed);
    // the user's own auto-correct list (every string it holds may end up in a C string):
    // entries for single letters and short words, Bengali / ASCII / emoji replacements; in a
    // third of the lists one replacement has a byte that is not UTF-8 (a damaged file that is
    // still well-formed JSON as far as the brackets and quotes go)
    let user_list_hex = if rng.pct(40) {
        let mut doc: Vec<u8> = b"{".to_vec();
        let n = rng.range(1, 4);
        let bad = if rng.pct(50) { Some(rng.below(n)) } else { None };
        for i in 0..n {
            if i > 0 {
                doc.push(b',');
            }
            let key: String = if rng.pct(75) {
                (*rng.pick(letters) as char).to_string()
            } else {
                rng.pick(&words).chars().filter(|c| c.is_ascii_lowercase()).take(4).collect()
            };
            let key = if key.is_empty() { "a".to_string() } else { key };
            let mut value: Vec<u8> = match rng.below(4) {
                0 => "\u{0995}\u{09BE}".as_bytes().to_vec(),
                1 => b"kotha".to_vec(),
                2 => "\u{1F600}".as_bytes().to_vec(),
                _ => "\u{09B8}\u{09BE}\u{09B0}".as_bytes().to_vec(),
            };
            if bad == Some(i) {
                let at = rng.usize(value.len());
                value[at] = 0xFF;
            }
            doc.extend_from_slice(b"\"");
            doc.extend_from_slice(key.as_bytes());
            doc.extend_from_slice(b"\":\"");
            doc.extend_from_slice(&value);
            doc.extend_from_slice(b"\"");
        }
        doc.push(b'}');
        Some(doc.iter().map(|b| format!("{:02x}", b)).collect::<String>())
    } else {
        None
    };
    FPlan { hash_seed: rng.next_u64(), ops, user_list_hex }
}

// ---------------------------------------------------------------- execution (child)

pub struct FStats {
    /// accounting mode: nothing that allocates is recorded
    pub light: bool,
    pub calls: u64,
    pub evaluations: u64,
    pub states: HashSet<u64>,
    pub counters: std::collections::BTreeMap<String, u64>,
}

impl FStats {
    pub fn new() -> FStats {
        FStats { light: false, calls: 0, evaluations: 0, states: HashSet::new(), counters: Default::default() }
    }
    fn bump(&mut self, k: &str) {
        if !self.light {
            *self.counters.entry(k.to_string()).or_insert(0) += 1;
        }
    }
}

struct Sug {
    ptr: *mut Suggestion,
    /// what was read out through the C getters when it was created
    first: Obs,
}

struct Ctx {
    ptr: *mut RitiContext,
    spec: CfgSpec,
    disk: SimDisk,
    twin: RitiContext,
    twin_disk: SimDisk,
    twin_cfg: CfgHandle,
    last: Option<Obs>,
}

/// Takes ownership of a returned `char*`: validates NUL termination and UTF-8 (CStr walks
/// to the terminator; ASan flags an over-read), copies, frees through riti_string_free.
unsafe fn take_string(p: *mut c_char, st: &mut FStats) -> Result<String, String> {
    st.calls += 2;
    if p.is_null() {
        return Err("a getter returned NULL".into());
    }
    let bytes = CStr::from_ptr(p).to_bytes().to_vec();
    riti_string_free(p);
    String::from_utf8(bytes).map_err(|e| format!("returned string is not UTF-8: {}", e))
}

/// Reads everything out of a suggestion through the C getters that match its variant.
unsafe fn read_c(p: *const Suggestion, session: bool, st: &mut FStats) -> Result<Obs, String> {
    st.calls += 2;
    let lonely = riti_suggestion_is_lonely(p);
    let _empty = riti_suggestion_is_empty(p);
    if lonely {
        let s = take_string(riti_suggestion_get_lonely_suggestion(p), st)?;
        let pre = take_string(riti_suggestion_get_pre_edit_text(p, 0), st)?;
        Ok(Obs {
            kind: if s.is_empty() { ObsKind::Empty } else { ObsKind::Single(s) },
            pre: vec![Ok(pre)],
            session,
        })
    } else {
        st.calls += 2;
        let len = riti_suggestion_get_length(p);
        let sel = riti_suggestion_previously_selected_index(p);
        let aux = take_string(riti_suggestion_get_auxiliary_text(p), st)?;
        let mut cands = Vec::new();
        let mut pre = Vec::new();
        for i in 0..len {
            cands.push(take_string(riti_suggestion_get_suggestion(p, i), st)?);
            pre.push(Ok(take_string(riti_suggestion_get_pre_edit_text(p, i), st)?));
        }
        Ok(Obs { kind: ObsKind::List { aux, cands, sel }, pre, session })
    }
}

pub struct FViolation {
    pub clause: String,
    pub detail: String,
    pub op_index: usize,
}

fn set_bit(ptr: *mut Config, bit: u8, on: bool) {
    unsafe {
        match bit {
            0 => riti_config_set_suggestion_include_english(ptr, on),
            1 => riti_config_set_phonetic_suggestion(ptr, on),
            2 => riti_config_set_fixed_suggestion(ptr, on),
            3 => riti_config_set_fixed_auto_vowel(ptr, on),
            4 => riti_config_set_fixed_auto_chandra(ptr, on),
            5 => riti_config_set_fixed_traditional_kar(ptr, on),
            6 => riti_config_set_fixed_old_reph(ptr, on),
            7 => riti_config_set_fixed_numpad(ptr, on),
            8 => riti_config_set_fixed_old_kar_order(ptr, on),
            9 => riti_config_set_ansi_encoding(ptr, on),
            _ => riti_config_set_smart_quote(ptr, on),
        }
    }
}

/// Executes one life cycle. Everything is driven through the C symbols; the Rust API is
/// used only on the lock-step twin and to read the same `Suggestion` for clause (c).
pub fn run_lifecycle(env: &Env, plan: &FPlan, st: &mut FStats) -> Result<(), FViolation> {
    crate::entropy::reseed(plan.hash_seed);
    let disk = SimDisk::new();
    if let Some(hex) = &plan.user_list_hex {
        let bytes: Vec<u8> = (0..hex.len() / 2).filter_map(|i| u8::from_str_radix(&hex[2 * i..2 * i + 2], 16).ok()).collect();
        disk.put(crate::disk::FileId::Autocorrect, Some(bytes), None);
    }
    let mut cfgs: Vec<Option<(CfgHandle, CfgSpec)>> = (0..NC).map(|_| None).collect();
    let mut ctxs: Vec<Option<Ctx>> = (0..NX).map(|_| None).collect();
    let mut sugs: Vec<Option<Sug>> = (0..NS).map(|_| None).collect();
    let mut strs: Vec<Option<(*mut c_char, Vec<u8>)>> = (0..NT).map(|_| None).collect();
    let mut result: Result<(), FViolation> = Ok(());
    let fail = |i: usize, clause: &str, detail: String| FViolation { clause: clause.into(), detail, op_index: i };

    'ops: for (i, op) in plan.ops.iter().enumerate() {
        macro_rules! bail {
            ($clause:expr, $detail:expr) => {{
                result = Err(fail(i, $clause, $detail));
                break 'ops;
            }};
        }
        match op {
            FOp::ConfigNew { c, spec } => {
                cfgs[*c as usize] = None; // frees a previous one through riti_config_free
                match CfgHandle::build(spec, &env.paths) {
                    Ok(h) => {
                        st.calls += 14;
                        cfgs[*c as usize] = Some((h, *spec));
                    }
                    Err(e) => bail!("harness", e),
                }
            }
            FOp::ConfigSet { c, bit, on } => {
                if let Some((h, spec)) = cfgs[*c as usize].as_mut() {
                    st.calls += 1;
                    set_bit(h.raw(), *bit, *on);
                    *spec = spec.with(1 << *bit, *on);
                }
            }
            FOp::ConfigFree { c } => {
                if cfgs[*c as usize].take().is_some() {
                    st.calls += 1;
                }
            }
            FOp::ConfigBadPath { c, layout } => {
                if let Some((h, _)) = cfgs[*c as usize].as_ref() {
                    st.calls += 1;
                    let p = CString::new("/riti-sim-virtual/no/such/file.json").unwrap();
                    let accepted = unsafe {
                        if *layout {
                            riti_config_set_layout_file(h.raw(), p.as_ptr())
                        } else {
                            riti_config_set_database_dir(h.raw(), p.as_ptr())
                        }
                    };
                    st.evaluations += 1;
                    st.bump("rejected_path");
                    if accepted {
                        bail!("setter-rejects-bad-path", "a path setter accepted a path that does not exist".to_string());
                    }
                }
            }
            FOp::CtxNew { x, c } => {
                if let Some((h, spec)) = cfgs[*c as usize].as_ref() {
                    if let Some(old) = ctxs[*x as usize].take() {
                        old.disk.install();
                        unsafe { riti_context_free(old.ptr) };
                    }
                    // every context gets its own copy of the disk (C19 is not about sharing),
                    // its twin a copy of that
                    let d = disk.fork();
                    d.install();
                    st.calls += 1;
                    let ptr = unsafe { riti_context_new_with_config(h.raw()) };
                    if ptr.is_null() {
                        bail!("valid-pointer", "riti_context_new_with_config returned NULL".to_string());
                    }
                    let twin_disk = d.fork();
                    let twin_cfg = match CfgHandle::build(spec, &env.paths) {
                        Ok(h) => h,
                        Err(e) => bail!("harness", e),
                    };
                    twin_disk.install();
                    let twin = RitiContext::new_with_config(twin_cfg.get());
                    ctxs[*x as usize] = Some(Ctx { ptr, spec: *spec, disk: d, twin, twin_disk, twin_cfg, last: None });
                }
            }
            FOp::CtxFree { x } => {
                if let Some(old) = ctxs[*x as usize].take() {
                    old.disk.install();
                    st.calls += 1;
                    unsafe { riti_context_free(old.ptr) };
                }
            }
            FOp::Key { x, .. } | FOp::Bs { x, .. } => {
                let (is_key, key, m, sel, ctrl, s) = match op {
                    FOp::Key { key, m, sel, s, .. } => (true, *key, *m, *sel, false, *s),
                    FOp::Bs { ctrl, s, .. } => (false, 0, 0, 0, *ctrl, *s),
                    _ => unreachable!(),
                };
                let ctx = match ctxs[*x as usize].as_mut() {
                    Some(c) => c,
                    None => continue,
                };
                if let Some(old) = sugs[s as usize].take() {
                    unsafe { riti_suggestion_free(old.ptr) };
                }
                ctx.disk.install();
                st.calls += 2;
                let (p, session) = unsafe {
                    let p = if is_key {
                        riti_get_suggestion_for_key(ctx.ptr, key, m, sel)
                    } else {
                        riti_context_backspace_event(ctx.ptr, ctrl)
                    };
                    (p, riti_context_ongoing_input_session(ctx.ptr))
                };
                if p.is_null() {
                    bail!("valid-pointer", "an event returned a NULL suggestion".to_string());
                }
                let oc = match unsafe { read_c(p, session, st) } {
                    Ok(o) => o,
                    Err(e) => {
                        unsafe { riti_suggestion_free(p) };
                        bail!("string-valid", e);
                    }
                };
                // (c) the C strings are the values the Rust API reports for the same object
                let orust = observe(unsafe { &*p }, session);
                st.evaluations += 1;
                match orust {
                    Ok(or) if or == oc => {}
                    other => {
                        unsafe { riti_suggestion_free(p) };
                        bail!("c-equals-rust", format!("C getters read [{}] but the Rust API reports {:?}", oc.brief(), other.map(|o| o.brief())));
                    }
                }
                // (e) the wrapper is observationally the Rust method it wraps
                ctx.twin_disk.install();
                let ts = if is_key { ctx.twin.get_suggestion_for_key(key, m, sel) } else { ctx.twin.backspace_event(ctrl) };
                let tsession = ctx.twin.ongoing_input_session();
                let ot = observe(&ts, tsession);
                st.evaluations += 1;
                match ot {
                    Ok(ot) if ot == oc => {}
                    other => {
                        unsafe { riti_suggestion_free(p) };
                        bail!(
                            "wrapper-equals-method",
                            format!(
                                "{} through the C wrapper shows [{}] but the same event through the Rust API shows {:?}",
                                if is_key { "key" } else { "backspace" },
                                oc.brief(),
                                other.map(|o| o.brief())
                            )
                        );
                    }
                }
                let mut fp = fnv_add(0xcbf2_9ce4_8422_2325, &ctx.spec.opts.to_le_bytes());
                fp = oc.fingerprint(fp);
                if !oc.is_empty() && !st.light {
                    st.states.insert(fp);
                }
                ctx.last = Some(oc.clone());
                sugs[s as usize] = Some(Sug { ptr: p, first: oc });
            }
            FOp::Commit { x, r } => {
                let ctx = match ctxs[*x as usize].as_mut() {
                    Some(c) => c,
                    None => continue,
                };
                let (len, session) = match &ctx.last {
                    Some(o) => (
                        match &o.kind {
                            ObsKind::List { cands, .. } => cands.len(),
                            ObsKind::Single(_) => 1,
                            ObsKind::Empty => 0,
                        },
                        o.session,
                    ),
                    None => (0, false),
                };
                if len == 0 || !session {
                    continue;
                }
                let idx = *r as usize % len;
                ctx.disk.install();
                st.calls += 2;
                let sess = unsafe {
                    riti_context_candidate_committed(ctx.ptr, idx);
                    riti_context_ongoing_input_session(ctx.ptr)
                };
                ctx.twin_disk.install();
                ctx.twin.candidate_committed(idx);
                let tsess = ctx.twin.ongoing_input_session();
                st.evaluations += 1;
                if sess != tsess {
                    bail!("wrapper-equals-method", format!("after commit({}): session {} through C, {} through Rust", idx, sess, tsess));
                }
                // the two stores must hold the same entries
                let a = ctx.disk.get(crate::disk::FileId::Store).as_deref().and_then(crate::learn::parse_store);
                let b = ctx.twin_disk.get(crate::disk::FileId::Store).as_deref().and_then(crate::learn::parse_store);
                if a != b {
                    bail!("wrapper-equals-method", format!("after commit({}): store through C {:?}, through Rust {:?}", idx, a, b));
                }
                ctx.last = None;
                st.bump("commit");
            }
            FOp::Finish { x } => {
                if let Some(ctx) = ctxs[*x as usize].as_mut() {
                    ctx.disk.install();
                    st.calls += 2;
                    let sess = unsafe {
                        riti_context_finish_input_session(ctx.ptr);
                        riti_context_ongoing_input_session(ctx.ptr)
                    };
                    ctx.twin_disk.install();
                    ctx.twin.finish_input_session();
                    st.evaluations += 1;
                    if sess != ctx.twin.ongoing_input_session() {
                        bail!("wrapper-equals-method", format!("after finish: session {} through C", sess));
                    }
                    ctx.last = None;
                }
            }
            FOp::Ongoing { x } => {
                if let Some(ctx) = ctxs[*x as usize].as_mut() {
                    ctx.disk.install();
                    st.calls += 1;
                    let a = unsafe { riti_context_ongoing_input_session(ctx.ptr) };
                    ctx.twin_disk.install();
                    st.evaluations += 1;
                    if a != ctx.twin.ongoing_input_session() {
                        bail!("wrapper-equals-method", format!("ongoing_input_session: {} through C", a));
                    }
                }
            }
            FOp::Update { x, c } => {
                if let (Some(ctx), Some((h, spec))) = (ctxs[*x as usize].as_mut(), cfgs[*c as usize].as_ref()) {
                    ctx.disk.install();
                    let idle = unsafe { !riti_context_ongoing_input_session(ctx.ptr) };
                    if !idle || spec.data != ctx.spec.data {
                        continue;
                    }
                    st.calls += 2;
                    unsafe { riti_context_update_engine(ctx.ptr, h.raw()) };
                    let tc = match CfgHandle::build(spec, &env.paths) {
                        Ok(h) => h,
                        Err(e) => bail!("harness", e),
                    };
                    ctx.twin_disk.install();
                    ctx.twin.update_engine(tc.get());
                    ctx.twin_cfg = tc;
                    ctx.spec = *spec;
                    ctx.last = None;
                    st.bump("update");
                }
            }
            FOp::ReadAll { s } => {
                if let Some(sug) = sugs[*s as usize].as_ref() {
                    // (d) repeated later: same bytes, whatever happened to the context
                    let again = unsafe { read_c(sug.ptr, sug.first.session, st) };
                    st.evaluations += 1;
                    st.bump("reread");
                    match again {
                        Ok(o) if o == sug.first => {}
                        other => bail!(
                            "readout-stable",
                            format!("first read [{}], read again later {:?}", sug.first.brief(), other.map(|o| o.brief()))
                        ),
                    }
                }
            }
            FOp::Hold { s, g, t } => {
                if let Some(sug) = sugs[*s as usize].as_ref() {
                    if let Some((p, _)) = strs[*t as usize].take() {
                        unsafe { riti_string_free(p) };
                    }
                    let len = sug.first.list_len();
                    let (p, expect): (*mut c_char, Option<String>) = unsafe {
                        match (g, &sug.first.kind) {
                            (Getter::Aux, ObsKind::List { aux, .. }) => (riti_suggestion_get_auxiliary_text(sug.ptr), Some(aux.clone())),
                            (Getter::Cand(r), ObsKind::List { cands, .. }) if len.unwrap_or(0) > 0 => {
                                let i = *r as usize % cands.len();
                                (riti_suggestion_get_suggestion(sug.ptr, i), Some(cands[i].clone()))
                            }
                            (Getter::Pre(r), ObsKind::List { cands, .. }) if len.unwrap_or(0) > 0 => {
                                let i = *r as usize % cands.len();
                                (riti_suggestion_get_pre_edit_text(sug.ptr, i), sug.first.pre[i].clone().ok())
                            }
                            (Getter::Pre(_), ObsKind::Single(_)) | (Getter::Pre(_), ObsKind::Empty) => {
                                (riti_suggestion_get_pre_edit_text(sug.ptr, 0), sug.first.pre[0].clone().ok())
                            }
                            (Getter::Lonely, ObsKind::Single(s)) => (riti_suggestion_get_lonely_suggestion(sug.ptr), Some(s.clone())),
                            (Getter::Lonely, ObsKind::Empty) => (riti_suggestion_get_lonely_suggestion(sug.ptr), Some(String::new())),
                            _ => (std::ptr::null_mut(), None),
                        }
                    };
                    if !p.is_null() {
                        st.calls += 1;
                        let bytes = unsafe { CStr::from_ptr(p).to_bytes().to_vec() };
                        st.evaluations += 1;
                        if Some(&bytes[..]) != expect.as_deref().map(|s| s.as_bytes()) {
                            unsafe { riti_string_free(p) };
                            bail!("readout-stable", format!("held string {:?} differs from the first read {:?}", String::from_utf8_lossy(&bytes), expect));
                        }
                        strs[*t as usize] = Some((p, bytes));
                        st.bump("held_string");
                    }
                }
            }
            FOp::Release { t } => {
                if let Some((p, bytes)) = strs[*t as usize].take() {
                    // independently owned: unaffected by whatever happened since
                    let now = unsafe { CStr::from_ptr(p).to_bytes().to_vec() };
                    st.calls += 1;
                    st.evaluations += 1;
                    unsafe { riti_string_free(p) };
                    if now != bytes {
                        bail!("string-independent", format!("a held string changed from {:?} to {:?}", String::from_utf8_lossy(&bytes), String::from_utf8_lossy(&now)));
                    }
                }
            }
            FOp::SugFree { s } => {
                if let Some(sug) = sugs[*s as usize].take() {
                    st.calls += 1;
                    unsafe { riti_suggestion_free(sug.ptr) };
                }
            }
            FOp::NullFrees => {
                st.calls += 4;
                unsafe {
                    riti_string_free(std::ptr::null_mut());
                    riti_suggestion_free(std::ptr::null_mut());
                    riti_context_free(std::ptr::null_mut());
                    riti_config_free(std::ptr::null_mut());
                }
                st.bump("null_frees");
            }
        }
    }
    // whatever is left (a sub-plan of a minimisation, or a violation) is released so that
    // the leak accounting judges riti, not the plan
    for s in strs.iter_mut() {
        if let Some((p, _)) = s.take() {
            unsafe { riti_string_free(p) };
        }
    }
    for s in sugs.iter_mut() {
        if let Some(sug) = s.take() {
            unsafe { riti_suggestion_free(sug.ptr) };
        }
    }
    for c in ctxs.iter_mut() {
        if let Some(ctx) = c.take() {
            ctx.disk.install();
            unsafe { riti_context_free(ctx.ptr) };
        }
    }
    cfgs.clear();
    riti::verif_fs::install(None);
    let _ = CString::new("x");
    result
}
