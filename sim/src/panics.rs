//! Calls into riti run under `catch_unwind`: a panic that would unwind into an
//! `extern "C"` wrapper aborts the host process, so "the Rust method panicked" is "the
//! input method died". The hook is silent and records message and location.

use std::cell::RefCell;
use std::panic::{self, AssertUnwindSafe};

thread_local! {
    static LAST: RefCell<Option<String>> = const { RefCell::new(None) };
    static IN_GUARD: std::cell::Cell<bool> = const { std::cell::Cell::new(false) };
}

pub fn install_hook() {
    let default = panic::take_hook();
    panic::set_hook(Box::new(move |info| {
        if IN_GUARD.with(|g| g.get()) {
            let msg = if let Some(s) = info.payload().downcast_ref::<&str>() {
                (*s).to_string()
            } else if let Some(s) = info.payload().downcast_ref::<String>() {
                s.clone()
            } else {
                "<non-string panic payload>".to_string()
            };
            let loc = info
                .location()
                .map(|l| format!("{}:{}", l.file(), l.line()))
                .unwrap_or_else(|| "<unknown>".into());
            LAST.with(|l| *l.borrow_mut() = Some(format!("{} @ {}", msg, loc)));
        } else {
            // A panic of the harness itself: loud, and the process will exit 2.
            default(info);
        }
    }));
}

/// Runs `f`; `Err(message @ location)` if it panicked.
pub fn guarded<T>(f: impl FnOnce() -> T) -> Result<T, String> {
    let prev = IN_GUARD.with(|g| g.replace(true));
    let r = panic::catch_unwind(AssertUnwindSafe(f));
    IN_GUARD.with(|g| g.set(prev));
    match r {
        Ok(v) => Ok(v),
        Err(_) => Err(LAST
            .with(|l| l.borrow_mut().take())
            .unwrap_or_else(|| "<panic without message>".into())),
    }
}
