//! Seeded generators: one PRNG stream per run decides the run's swarm configuration
//! (layout, options, data profile, hosts, enabled fault kinds, lengths, biases) and then
//! every operation. The result is an explicit plan; execution never draws again.

use crate::cfg::*;
use crate::disk::{DirState, ErrKind, FileId, WriteFault};
use crate::env::{Env, LayoutInfo};
use crate::fixedmodel as fm;
use crate::host::{Host, ObsKind};
use crate::disk::SimDisk;
use crate::plan::*;
use crate::prng::Rng;

#[derive(Clone, Copy, PartialEq, Eq, Debug)]
pub enum Tier {
    Quick,
    Thorough,
}

const LETTERS: &[u8] = b"abcdefghijklmnopqrstuvwxyz";
const WRAP_PUNCT: &[u8] = b"\"'([{<-!?.,;:)]}>*#@%&_=+/|~";
const PRESERVING: &[u8] = b".?!,:;-_)}]'\"";

pub struct Gen<'a> {
    pub env: &'a Env,
    pub rng: Rng,
    pub tier: Tier,
}

fn key_for(env: &Env, c: char) -> Option<u16> {
    env.keys.code_for(c)
}

impl<'a> Gen<'a> {
    pub fn new(env: &'a Env, seed: u64, tier: Tier) -> Gen<'a> {
        Gen {
            env,
            rng: Rng::new(seed),
            tier,
        }
    }

    // ------------------------------------------------------------------ words

    fn random_letters(&mut self, lo: usize, hi: usize) -> String {
        let n = self.rng.range(lo as u64, hi as u64) as usize;
        (0..n)
            .map(|_| {
                let c = *self.rng.pick(LETTERS) as char;
                if self.rng.pct(6) {
                    c.to_ascii_uppercase()
                } else {
                    c
                }
            })
            .collect()
    }

    /// A Latin word: dictionary back-spelling, auto-correct key, random letters, or one of
    /// those plus a known suffix.
    pub fn word(&mut self) -> String {
        let base = match self.rng.weighted(&[40, 20, 25, 15]) {
            0 => self.rng.pick(&self.env.dict_spellings).clone(),
            1 => self.rng.pick(&self.env.autocorrect_words).clone(),
            2 => self.random_letters(1, 7),
            _ => {
                let w = self.rng.pick(&self.env.dict_spellings).clone();
                let cut = self.rng.range(1, w.len() as u64) as usize;
                w[..cut].to_string()
            }
        };
        if self.rng.pct(25) {
            let s = self.rng.pick(&self.env.suffix_keys).clone();
            format!("{}{}", base, s)
        } else {
            base
        }
    }

    pub fn short_suffix(&mut self) -> String {
        // bias to short, common suffixes and to the extremes of the table (the longest
        // keys, where length bounds live); otherwise any
        match self.rng.weighted(&[45, 15, 40]) {
            0 => {
                let short: Vec<&String> = self.env.suffix_keys.iter().filter(|s| s.len() <= 3).collect();
                (*self.rng.pick(&short)).clone()
            }
            1 => {
                let mut by_len: Vec<&String> = self.env.suffix_keys.iter().collect();
                by_len.sort_by(|a, b| b.len().cmp(&a.len()).then(a.cmp(b)));
                by_len[self.rng.usize(12.min(by_len.len()))].clone()
            }
            _ => self.rng.pick(&self.env.suffix_keys).clone(),
        }
    }

    fn wrap(&mut self, word: &str, max_each: usize) -> String {
        let mut s = String::new();
        let pre = self.rng.usize(max_each + 1);
        let post = self.rng.usize(max_each + 1);
        for _ in 0..pre {
            // quotes and brackets get extra weight in front
            let c = if self.rng.pct(40) { *self.rng.pick(b"\"'(") } else { *self.rng.pick(WRAP_PUNCT) };
            s.push(c as char);
        }
        s.push_str(word);
        for _ in 0..post {
            let c = if self.rng.pct(40) { *self.rng.pick(b"\"').,:") } else { *self.rng.pick(WRAP_PUNCT) };
            s.push(c as char);
        }
        s
    }

    /// Any typeable text: a (possibly wrapped) word, an emoticon, an emoji name, or junk.
    pub fn text(&mut self) -> String {
        let t = self.text_plain();
        // the escape character of the phonetic scheme somewhere inside, now and then
        if self.rng.pct(6) && !t.is_empty() {
            let cs: Vec<char> = t.chars().collect();
            let at = self.rng.usize(cs.len() + 1);
            let mut out: String = cs[..at].iter().collect();
            out.push('`');
            out.extend(cs[at..].iter());
            return out;
        }
        t
    }

    fn text_plain(&mut self) -> String {
        match self.rng.weighted(&[55, 20, 8, 8, 9]) {
            0 => self.word(),
            1 => {
                let w = self.word();
                self.wrap(&w, 2)
            }
            2 => {
                let v = &self.env.emoticons;
                if self.rng.coin() { v[self.rng.usize(18)].to_string() } else { self.rng.pick(v).to_string() }
            }
            3 => {
                let v = &self.env.emoji_names;
                if self.rng.coin() { v[self.rng.usize(20)].to_string() } else { self.rng.pick(v).to_string() }
            }
            _ => {
                let n = self.rng.range(1, 6);
                (0..n)
                    .map(|_| {
                        let all = b"abcdefghijklmnopqrstuvwxyzABCDEFGHIJKLMNOPQRSTUVWXYZ0123456789`~!@#$%^&*()-_=+[]{}\\|;:'\",.<>/?";
                        *self.rng.pick(all) as char
                    })
                    .collect()
            }
        }
    }

    // ------------------------------------------------------------------ configurations

    fn random_opts(&mut self) -> u16 {
        (self.rng.next_u64() as u16) & ALL_OPTS
    }

    fn data_kind(&mut self, full: u32, small: u32, none: u32) -> DataKind {
        match self.rng.weighted(&[full, small, none]) {
            0 => DataKind::Full,
            1 => DataKind::Small,
            _ => DataKind::None,
        }
    }

    fn any_cfg(&mut self, full: u32, small: u32, none: u32) -> CfgSpec {
        let layout = match self.rng.weighted(&[45, 25, 30]) {
            0 => LayoutKind::Phonetic,
            1 => LayoutKind::Probhat,
            _ => LayoutKind::Synthetic,
        };
        let mut opts = self.random_opts();
        // suggestions on more often than not: that is where the state is
        if self.rng.pct(60) {
            opts |= PHON_SUG | FIXED_SUG;
        }
        CfgSpec {
            layout,
            data: self.data_kind(full, small, none),
            opts,
        }
    }

    fn phonetic_cfg(&mut self, full: u32, small: u32, none: u32, sug_pct: u64) -> CfgSpec {
        let mut opts = self.random_opts() & !(PHON_SUG);
        if self.rng.pct(sug_pct) {
            opts |= PHON_SUG;
        }
        CfgSpec {
            layout: LayoutKind::Phonetic,
            data: self.data_kind(full, small, none),
            opts,
        }
    }

    fn fixed_cfg(&mut self, synthetic_pct: u64, full: u32, small: u32, none: u32) -> CfgSpec {
        CfgSpec {
            layout: if self.rng.pct(synthetic_pct) { LayoutKind::Synthetic } else { LayoutKind::Probhat },
            data: self.data_kind(full, small, none),
            opts: self.random_opts(),
        }
    }

    // ------------------------------------------------------------------ op helpers

    fn type_text(&self, ops: &mut Vec<Op>, h: u8, text: &str, sel: Sel) {
        for c in text.chars() {
            if let Some(k) = key_for(self.env, c) {
                ops.push(Op::Key { h, key: k, m: 0, sel });
            }
        }
    }

    fn random_modifier(&mut self) -> u8 {
        match self.rng.weighted(&[70, 8, 8, 6, 8]) {
            0 => 0,
            1 => 1,
            2 => 2,
            3 => 3,
            _ => self.rng.next_u64() as u8,
        }
    }

    fn raw_sel(&mut self) -> Sel {
        match self.rng.weighted(&[50, 25, 25]) {
            0 => Sel::Raw(0),
            1 => Sel::Raw(self.rng.range(1, 9) as u8),
            _ => Sel::Raw(self.rng.next_u64() as u8),
        }
    }

    fn sharp_key(&mut self, layout: LayoutKind) -> u16 {
        let env = self.env;
        let fixed = env.layout(layout);
        if let (Some(l), true) = (fixed, self.rng.pct(50)) {
            // reph, hasanta, signs, fola in a fixed layout
            let vals = [fm::REPH, "\u{09CD}", "\u{09BF}", "\u{09C7}", "\u{09C8}", "\u{0981}", fm::ZOFOLA, "\u{09CD}\u{09B0}", "\u{09BE}", "\u{09D7}", "\u{200C}"];
            let v = *self.rng.pick(&vals);
            if let Some((k, _)) = l.by_value.get(v) {
                return *k;
            }
        }
        let chars = b":`\\^$'\"?;-_)";
        let names = ["VC_KP_ENTER", "VC_KP_EQUALS", "VC_KP_DIVIDE", "VC_KP_0", "VC_KP_5", "VC_KP_DECIMAL", "VC_KP_MULTIPLY"];
        if self.rng.pct(35) {
            let n = *self.rng.pick(&names);
            env.keys.keys.iter().find(|k| k.name == n).map(|k| k.code).unwrap_or(0x0E1C)
        } else {
            key_for(env, *self.rng.pick(chars) as char).unwrap()
        }
    }

    /// The index of a learning commit: any candidate other than the preselected one, with a
    /// bias to the last few entries of the list (with the English option on the very last one
    /// is the typed text itself).
    fn learn_idx(&mut self) -> Idx {
        if self.rng.pct(75) {
            Idx::Other(self.rng.next_u64() as u8)
        } else {
            Idx::Top(self.rng.below(3) as u8)
        }
    }

    fn terminator(&mut self, h: u8, allow_learning: bool) -> Op {
        match self.rng.weighted(&[40, 25, 15, 20]) {
            0 => Op::Commit {
                h,
                idx: if allow_learning { Idx::Rel(self.rng.next_u64() as u8) } else { Idx::Presel },
            },
            1 => Op::Finish { h },
            2 => Op::Bs { h, ctrl: true },
            _ => Op::Commit { h, idx: Idx::Presel },
        }
    }

    /// Options of a live context are changed between two words (update_engine while idle,
    /// same layout, same data directory): one or two of `flippable` are flipped.
    fn live_option_flip(&mut self, cfg: &mut CfgSpec, flippable: &[u16]) {
        for _ in 0..self.rng.range(1, 2) {
            cfg.opts ^= *self.rng.pick(flippable);
        }
    }

    /// How far the simulated clock moves before an external change of a user file: whole
    /// seconds, or less than a second (two saves within the same second of the clock, down
    /// to the next nanosecond), or seconds plus a fraction.
    fn clock_step(&mut self, max_s: u64) -> u64 {
        match self.rng.weighted(&[45, 35, 20]) {
            0 => self.rng.range(1, max_s) * 1_000_000_000,
            1 => *self.rng.pick(&[1u64, 1_000, 1_000_000, 40_000_000, 300_000_000, 900_000_000]),
            _ => self.rng.range(1, max_s) * 1_000_000_000 + self.rng.range(1, 999_999_999),
        }
    }

    /// A save that fails without killing the process (the process-killing ones are C10's).
    fn failing_save(&mut self) -> WriteFault {
        match self.rng.weighted(&[20, 20, 15, 25, 20]) {
            0 => WriteFault::OpenFails(ErrKind::NotFound),
            1 => WriteFault::OpenFails(ErrKind::Access),
            2 => WriteFault::OpenFails(ErrKind::Rofs),
            3 => WriteFault::FailsAfter(self.rng.next_u64() as u32, ErrKind::NoSpace),
            _ => WriteFault::FailsAfter(self.rng.next_u64() as u32, ErrKind::Io),
        }
    }

    /// The fault-injecting configuration of the history scenarios (C01, C02, C06): the same
    /// histories over a user-data directory that cannot be written. Either the directory is
    /// missing / read-only from before the first context (every save fails), or it goes away
    /// half-way (`whole_run_only` = false) and may come back, or single saves fail (a fault
    /// armed right before a commit, which is made a learning commit).
    fn inject_save_faults(&mut self, ops: &mut Vec<Op>, whole_run_only: bool) {
        let kind = if whole_run_only { self.rng.weighted(&[50, 0, 50, 0]) } else { self.rng.weighted(&[22, 22, 34, 22]) };
        match kind {
            3 => {
                // a user file is damaged (torn, malformed, of the wrong shape) before the first
                // context exists or half-way, as another host's interrupted save leaves it
                let file = if self.rng.pct(75) { FileId::Store } else { FileId::Autocorrect };
                let st = match self.rng.weighted(&[40, 30, 30]) {
                    0 => self.malformed_doc(),
                    1 => self.wrong_shape_doc(),
                    _ => FileSt::Text(String::new()),
                };
                let at = if self.rng.coin() { 0 } else { self.rng.range(1, ops.len() as u64) as usize };
                ops.insert(at.min(ops.len()), Op::SetFile { file, st, mt: Mt::Now });
                // learning commits meet the damaged file
                let mut out = Vec::with_capacity(ops.len());
                for op in ops.drain(..) {
                    match op {
                        Op::Commit { h, .. } if self.rng.pct(40) => out.push(Op::Commit { h, idx: Idx::Other(self.rng.next_u64() as u8) }),
                        o => out.push(o),
                    }
                }
                *ops = out;
            }
            0 => {
                let st = if self.rng.coin() { DirState::Missing } else { DirState::ReadOnly };
                ops.insert(0, Op::SetDir { st });
            }
            1 => {
                let st = if self.rng.coin() { DirState::Missing } else { DirState::ReadOnly };
                let at = self.rng.range(1, ops.len() as u64) as usize;
                ops.insert(at.min(ops.len()), Op::SetDir { st });
                if self.rng.pct(50) {
                    let back = self.rng.range(at as u64 + 1, ops.len() as u64) as usize;
                    ops.insert(back.min(ops.len()), Op::Heal);
                }
            }
            _ => {
                let mut out = Vec::with_capacity(ops.len() + 8);
                for op in ops.drain(..) {
                    match op {
                        Op::Commit { h, .. } if self.rng.pct(50) => {
                            let fault = self.failing_save();
                            out.push(Op::Arm { fault });
                            out.push(Op::Commit { h, idx: Idx::Other(self.rng.next_u64() as u8) });
                        }
                        o => out.push(o),
                    }
                }
                *ops = out;
            }
        }
    }

    // ------------------------------------------------------------------ C01 / C02

    fn gen_free_histories(&mut self, scenario: Scenario) -> Plan {
        let valid_sel = scenario == Scenario::Wellformed;
        let (full, small, none) = match self.tier {
            Tier::Quick => (8, 67, 25),
            Tier::Thorough => (35, 45, 20),
        };
        let cap = match self.tier {
            Tier::Quick => 40,
            Tier::Thorough => 100,
        };
        let n_hosts = if self.rng.pct(25) { 2 } else { 1 };
        let mut ops = Vec::new();
        let mut cfgs = Vec::new();
        for h in 0..n_hosts {
            let mut c = self.any_cfg(full, small, none);
            if h == 0 && c.is_phonetic() && self.rng.pct(5) {
                // the BIG dictionary: lists of more than 256 candidates
                c.data = DataKind::Big;
                c.opts |= PHON_SUG;
            }
            cfgs.push(c);
            ops.push(Op::Spawn { h: h as u8, cfg: c });
        }
        let mut since_term = vec![0usize; n_hosts];
        let target = self.rng.range(30, if self.tier == Tier::Quick { 140 } else { 200 }) as usize;
        if cfgs[0].is_phonetic() && cfgs[0].has(PHON_SUG) && cfgs[0].data != DataKind::Full && self.rng.below(300) == 0 {
            // a marathon: a few hundred different words in one context (whatever the context
            // accumulates per word grows past a thousand entries), and after many of the keys a
            // key without a character, passed the highest selection that is valid for the list
            // just shown - it must come back with a list and a selection that fit each other
            let dead = self.env.keys.keys.iter().find(|k| k.name == "VC_KP_ENTER").map(|k| k.code).unwrap_or(0x0E1C);
            let n_words = self.rng.range(180, 300);
            for _ in 0..n_words {
                let mut w: String = self.rng.pick(&self.env.dict_spellings).chars().filter(|c| c.is_ascii_alphabetic()).take(7).collect();
                if self.rng.pct(40) {
                    w.push_str(&self.short_suffix());
                }
                for c in w.chars() {
                    if let Some(k) = key_for(self.env, c) {
                        ops.push(Op::Key { h: 0, key: k, m: 0, sel: if valid_sel { Sel::Presel } else { Sel::Raw(0) } });
                        if self.rng.pct(45) {
                            ops.push(Op::Key { h: 0, key: dead, m: 0, sel: if valid_sel { Sel::Top(0) } else { Sel::Raw(self.rng.next_u64() as u8) } });
                        }
                    }
                }
                ops.push(Op::Finish { h: 0 });
            }
        }
        if !cfgs[0].is_phonetic() && cfgs[0].has(FIXED_SUG) {
            // the emoji table has a thousand Bengali names with one to ten emoji each: a few of
            // them as whole words at the start of every fixed-layout run with the list on, so
            // that a batch meets every name several times under every option pattern
            if let Some(l) = self.env.layout(cfgs[0].layout) {
                for _ in 0..3 {
                    let name = self.rng.pick(&self.env.bn_emoji_names).to_string();
                    if let Some(keys) = self.fixed_keys_for_text(l, 0, &name) {
                        ops.extend(keys);
                        ops.push(Op::Finish { h: 0 });
                    }
                }
            }
        }
        if cfgs[0].data == DataKind::Big {
            // where the selection byte (u8) stops covering the list (usize): a word with
            // several hundred candidates, then a selection-preserving mark with a selection
            // at the top of the byte range, or counted from the end of the list
            for _ in 0..self.rng.range(2, 6) {
                let mut w = self.rng.pick(&["ko", "mo", "bo", "to"]).to_string();
                if self.rng.pct(60) {
                    w.push_str(&self.short_suffix());
                }
                self.type_text(&mut ops, 0, &w, if valid_sel { Sel::Presel } else { Sel::Raw(0) });
                for _ in 0..self.rng.range(1, 3) {
                    let mark = *self.rng.pick(PRESERVING) as char;
                    let byte = match self.rng.weighted(&[45, 25, 15, 15]) {
                        0 => 255u8,
                        1 => 254,
                        2 => 253 + self.rng.below(3) as u8,
                        _ => self.rng.next_u64() as u8,
                    };
                    let sel = if valid_sel {
                        if self.rng.pct(75) { Sel::Valid(byte) } else { Sel::Top(self.rng.below(60) as u8) }
                    } else {
                        Sel::Raw(byte)
                    };
                    if let Some(k) = key_for(self.env, mark) {
                        ops.push(Op::Key { h: 0, key: k, m: 0, sel });
                    }
                    if self.rng.pct(50) {
                        ops.push(Op::Bs { h: 0, ctrl: false });
                    }
                }
                let t = self.terminator(0, true);
                ops.push(t);
            }
        }
        // unusual-but-legal learned entries written by the engine itself
        if self.rng.pct(25) && cfgs[0].is_phonetic() {
            let recipes: [&str; 10] = [":)", ":", "de:sh", ";)", "\"a\"", ":`", "o`", "`", "a`", "=s"];
            let n = self.rng.range(1, 3);
            for _ in 0..n {
                let t = match self.rng.weighted(&[55, 25, 20]) {
                    0 => self.rng.pick(&recipes).to_string(),
                    1 if cfgs[0].has(PHON_SUG) => self.rich_word(cfgs[0]),
                    _ => self.text(),
                };
                // the same text committed once or several times in a row (each commit of a
                // non-preselected index moves the learned choice, also to an empty candidate)
                for _ in 0..self.rng.range(0, 2) {
                    self.type_text(&mut ops, 0, &t, if valid_sel { Sel::Presel } else { Sel::Raw(0) });
                    ops.push(Op::Commit { h: 0, idx: Idx::Rel(self.rng.next_u64() as u8) });
                }
                self.type_text(&mut ops, 0, &t, if valid_sel { Sel::Presel } else { Sel::Raw(0) });
                ops.push(Op::Commit { h: 0, idx: if self.rng.coin() { Idx::Other(self.rng.next_u64() as u8) } else { Idx::Top(self.rng.below(3) as u8) } });
                if self.rng.pct(30) {
                    ops.push(Op::Restart { h: 0 });
                }
                if self.rng.pct(50) {
                    // the learned text once more (its choice may sit anywhere in a long list)
                    self.type_text(&mut ops, 0, &t, if valid_sel { Sel::Presel } else { Sel::Raw(0) });
                    ops.push(Op::Finish { h: 0 });
                }
                if self.rng.pct(30) {
                    // the same text once more, then an option that changes what is offered for
                    // it (the typed English text, the emoji) is switched while idle, then the
                    // same text again: whatever was remembered about its list is stale
                    let sel0 = if valid_sel { Sel::Presel } else { Sel::Raw(0) };
                    self.type_text(&mut ops, 0, &t, sel0);
                    ops.push(Op::Finish { h: 0 });
                    let mut c = cfgs[0];
                    c.opts ^= *self.rng.pick(&[ENGLISH, ANSI, ENGLISH | ANSI, SMART_QUOTE]);
                    cfgs[0] = c;
                    ops.push(Op::Update { h: 0, cfg: c });
                    self.type_text(&mut ops, 0, &t, sel0);
                    ops.push(Op::Finish { h: 0 });
                }
                if self.rng.pct(70) {
                    // ... and the same text again with a known suffix behind it
                    let s = format!("{}{}", t, self.short_suffix());
                    self.type_text(&mut ops, 0, &s, if valid_sel { Sel::Presel } else { Sel::Raw(0) });
                    ops.push(Op::Finish { h: 0 });
                }
            }
        }
        // a family of learned words: a stem and the same stem with one and with two known
        // suffixes behind it are each learned (longest first or shortest first), then some of
        // them are learned again with another candidate - entries that are derived from one
        // another, found through one another and replaced under one another
        if self.rng.pct(7) && cfgs[0].is_phonetic() && cfgs[0].has(PHON_SUG) {
            let sel0 = if valid_sel { Sel::Presel } else { Sel::Raw(0) };
            let stem: String = self.rng.pick(&self.env.dict_spellings).chars().filter(|c| c.is_ascii_alphabetic()).take(5).collect();
            let s1 = self.short_suffix();
            let s2 = self.short_suffix();
            let mut family = vec![format!("{}{}{}", stem, s1, s2), format!("{}{}", stem, s1), stem.clone()];
            if self.rng.coin() {
                family.reverse();
            }
            if !stem.is_empty() {
                let first = self.rng.range(1, 3) as u8;
                for t in &family {
                    self.type_text(&mut ops, 0, t, sel0);
                    ops.push(Op::Commit { h: 0, idx: if self.rng.pct(70) { Idx::Rel(first) } else { Idx::Other(self.rng.next_u64() as u8) } });
                }
                if self.rng.pct(25) {
                    ops.push(Op::Restart { h: 0 });
                }
                for _ in 0..self.rng.range(1, 3) {
                    let t = if self.rng.pct(60) { stem.clone() } else { self.rng.pick(&family).clone() };
                    self.type_text(&mut ops, 0, &t, sel0);
                    ops.push(Op::Commit { h: 0, idx: if self.rng.pct(60) { Idx::Rel(first + 1) } else { Idx::Other(self.rng.next_u64() as u8) } });
                }
                for t in &family {
                    self.type_text(&mut ops, 0, t, sel0);
                    ops.push(Op::Finish { h: 0 });
                }
            }
        }
        while ops.len() < target {
            let h = self.rng.usize(n_hosts);
            let hb = h as u8;
            let layout = cfgs[h].layout;
            if since_term[h] >= cap {
                ops.push(self.terminator(hb, true));
                since_term[h] = 0;
                continue;
            }
            let sel = |g: &mut Gen| -> Sel {
                if valid_sel {
                    if g.rng.pct(70) { Sel::Valid(g.rng.next_u64() as u8) } else { Sel::Presel }
                } else {
                    g.raw_sel()
                }
            };
            if self.rng.pct(2) {
                // the environment: the user's auto-correct list is rewritten by its editor (a
                // valid document; stamped now, with the same time, or with an older time as
                // after a restored backup), or the clock moves
                let w = self.word();
                let core: String = w.chars().filter(|c| c.is_ascii_alphabetic()).take(8).collect();
                let doc = self.autocorrect_doc(&core);
                let mt = match self.rng.weighted(&[55, 13, 22, 10]) {
                    0 => Mt::Now,
                    1 => Mt::Tie,
                    3 => Mt::Ahead(self.rng.range(1, 200 * 365 * 86_400) * 1_000_000_000),
                    _ => Mt::Back(self.rng.range(1, 100_000) * 1_000_000_000),
                };
                ops.push(Op::Clock { dt: self.clock_step(50) });
                if !core.is_empty() {
                    ops.push(Op::SetFile { file: FileId::Autocorrect, st: FileSt::Text(doc), mt });
                    if cfgs[h].is_phonetic() && self.rng.pct(55) {
                        // the context re-loads the list while idle, and the word with the new
                        // entry is composed
                        ops.push(Op::Finish { h: hb });
                        ops.push(Op::Update { h: hb, cfg: cfgs[h] });
                        let s = sel(self);
                        self.type_text(&mut ops, hb, &core, s);
                        since_term[h] += core.len();
                    }
                }
                continue;
            }
            match self.rng.weighted(&[58, 8, 2, 8, 3, 3, 2, 12, 4]) {
                0 => {
                    // single key
                    let key = match self.rng.weighted(&[70, 30]) {
                        0 => self.env.keys.keys[self.rng.usize(self.env.keys.keys.len())].code,
                        _ => self.sharp_key(layout),
                    };
                    let m = self.random_modifier();
                    let s = sel(self);
                    ops.push(Op::Key { h: hb, key, m, sel: s });
                    since_term[h] += 1;
                }
                1 => {
                    ops.push(Op::Bs { h: hb, ctrl: false });
                }
                2 => {
                    ops.push(Op::Bs { h: hb, ctrl: true });
                    since_term[h] = 0;
                }
                3 => {
                    ops.push(Op::Commit { h: hb, idx: Idx::Rel(self.rng.next_u64() as u8) });
                    since_term[h] = 0;
                }
                4 => {
                    ops.push(Op::Finish { h: hb });
                    since_term[h] = 0;
                }
                5 => {
                    // update only takes effect while idle; make it likely
                    if self.rng.pct(70) {
                        ops.push(Op::Finish { h: hb });
                        since_term[h] = 0;
                    }
                    let mut c = self.any_cfg(full, small, none);
                    c.data = cfgs[h].data; // same data directory (the contract of update)
                    cfgs[h] = c;
                    ops.push(Op::Update { h: hb, cfg: c });
                }
                6 => {
                    ops.push(Op::Restart { h: hb });
                    since_term[h] = 0;
                }
                7 if !cfgs[h].is_phonetic() && self.rng.pct(25) => {
                    // fixed layout: a Bengali emoji name typed through the layout
                    let name = self.rng.pick(&self.env.bn_emoji_names).to_string();
                    if let Some(l) = self.env.layout(layout) {
                        if let Some(keys) = self.fixed_keys_for_text(l, hb, &name) {
                            since_term[h] += keys.len();
                            ops.extend(keys);
                        }
                    }
                }
                7 => {
                    // a whole word, optionally followed by a selection-preserving key with
                    // a high valid selection (the list-shrinking shape)
                    let t = self.text();
                    let t: String = t.chars().take(cap.saturating_sub(since_term[h]).max(1)).collect();
                    for c in t.chars() {
                        if let Some(k) = key_for(self.env, c) {
                            let s = sel(self);
                            ops.push(Op::Key { h: hb, key: k, m: 0, sel: s });
                            since_term[h] += 1;
                        }
                    }
                    if self.rng.pct(60) {
                        if self.rng.pct(35) {
                            // an edit detour right before the mark: a letter or two typed and
                            // deleted again, so that the list shown last came from a backspace
                            // and the list before it belonged to a longer text
                            let junk = self.random_letters(1, 2);
                            for c in junk.chars() {
                                let s = sel(self);
                                ops.push(Op::Key { h: hb, key: key_for(self.env, c).unwrap(), m: 0, sel: s });
                            }
                            for _ in 0..junk.len() {
                                ops.push(Op::Bs { h: hb, ctrl: false });
                            }
                        }
                        let n = self.rng.range(1, 3);
                        for _ in 0..n {
                            let c = *self.rng.pick(PRESERVING) as char;
                            let s = if valid_sel {
                                if self.rng.coin() { Sel::Top(self.rng.below(3) as u8) } else { Sel::Valid(255 - self.rng.below(3) as u8) }
                            } else {
                                sel(self)
                            };
                            ops.push(Op::Key { h: hb, key: key_for(self.env, c).unwrap(), m: 0, sel: s });
                            since_term[h] += 1;
                        }
                    }
                }
                _ if self.rng.pct(45) => {
                    // a short motif repeated up to the cap: a known suffix key ("er", "re",
                    // "gulo", ...) or a few letters, so that suffix-on-suffix chains arise
                    let motif: String = if self.rng.pct(70) {
                        let short: Vec<&String> = self.env.suffix_keys.iter().filter(|s| s.len() <= 3).collect();
                        (*self.rng.pick(&short)).clone()
                    } else {
                        let n = self.rng.range(2, 3);
                        (0..n).map(|_| *self.rng.pick(b"erioytakn") as char).collect()
                    };
                    let room = cap.saturating_sub(since_term[h]).max(4);
                    let n = if self.rng.pct(60) { room } else { self.rng.range(4, room as u64) as usize };
                    let mc: Vec<char> = motif.chars().collect();
                    for i in 0..n {
                        if let Some(k) = key_for(self.env, mc[i % mc.len()]) {
                            let s = sel(self);
                            ops.push(Op::Key { h: hb, key: k, m: 0, sel: s });
                        }
                    }
                    since_term[h] += n;
                }
                _ => {
                    // the same key many times
                    let key = if self.rng.coin() { key_for(self.env, *self.rng.pick(LETTERS) as char).unwrap() } else { self.sharp_key(layout) };
                    let n = self.rng.range(3, (cap - since_term[h]).clamp(3, 48) as u64);
                    for _ in 0..n {
                        let s = sel(self);
                        ops.push(Op::Key { h: hb, key, m: 0, sel: s });
                    }
                    since_term[h] += n as usize;
                }
            }
        }
        // fault-injecting configuration: the same histories over a user-data directory that
        // cannot be written (learning commits whose save fails must leave the context as
        // usable and as self-consistent as any other commit)
        if cfgs.iter().any(|c| c.is_phonetic() && c.has(PHON_SUG)) && self.rng.pct(12) {
            self.inject_save_faults(&mut ops, false);
        }
        Plan { scenario, hash_seed: self.rng.next_u64(), prelude: Prelude::default(), ops }
    }

    // ------------------------------------------------------------------ probing helper

    /// Candidate list riti shows for `text` under `cfg` over an empty disk (used only to
    /// plant *realistic* learned entries; part of generation, a pure function of the seed
    /// and the code).
    /// A short typed word with a long candidate list under `cfg` (the longest of three
    /// probed): where a learned choice can sit deep in the list.
    fn rich_word(&mut self, cfg: CfgSpec) -> String {
        let mut probe: Option<Host> = None;
        let mut best = (0usize, String::from("a"));
        for _ in 0..3 {
            let w = self.rng.pick(&self.env.dict_spellings).clone();
            let cut = self.rng.range(2, 4).min(w.len() as u64) as usize;
            let w = w[..cut.max(1)].to_string();
            let n = self.probe_candidates(&mut probe, cfg.with(SMART_QUOTE, false), &w).len();
            if n >= best.0 {
                best = (n, w);
            }
        }
        best.1
    }

    fn probe_candidates(&self, host: &mut Option<Host>, cfg: CfgSpec, text: &str) -> Vec<String> {
        if host.is_none() {
            *host = Host::spawn(cfg, SimDisk::new(), &self.env.paths).ok();
        }
        let h = match host.as_mut() {
            Some(h) => h,
            None => return vec![],
        };
        let _ = h.finish();
        let mut last = None;
        for c in text.chars() {
            if let Some(k) = key_for(self.env, c) {
                match h.key(k, 0, 0) {
                    Ok(o) => last = Some(o),
                    Err(_) => {
                        *host = None;
                        return vec![];
                    }
                }
            }
        }
        let _ = h.finish();
        match last.map(|o| o.kind) {
            Some(ObsKind::List { cands, .. }) => cands,
            _ => vec![],
        }
    }

    // ------------------------------------------------------------------ C05

    fn gen_history_independence(&mut self) -> Plan {
        let (full, small, none) = match self.tier {
            Tier::Quick => (6, 70, 24),
            Tier::Thorough => (25, 55, 20),
        };
        let cfg = self.phonetic_cfg(full, small, none, 85);
        let max_len = if self.tier == Tier::Quick { 14 } else { 22 };
        let mut target = match self.rng.weighted(&[60, 25, 15]) {
            0 => self.word(),
            1 => {
                let w = self.word();
                self.wrap(&w, 2)
            }
            _ => self.text(),
        };
        // the list-shrinking shape: a word whose list loses entries when a selection-preserving
        // punctuation mark is added (emoji by name or emoticon stops matching, ':' re-splits)
        let shrinking = self.rng.pct(22);
        if shrinking {
            let head = match self.rng.weighted(&[40, 25, 20, 15]) {
                0 => { let v = &self.env.emoji_names; if self.rng.coin() { v[self.rng.usize(20)].to_string() } else { self.rng.pick(v).to_string() } }
                1 => { let v = &self.env.emoticons; self.rng.pick(v).to_string() }
                2 => self.rng.pick(&self.env.autocorrect_words).clone(),
                _ => self.word(),
            };
            let tail = *self.rng.pick(b":):.,;!?-_'\"") as char;
            target = format!("{}{}", head, tail);
        }
        target = target.chars().take(max_len).collect();
        // the first key of a word is the most common event of all: one- and two-character
        // targets (what is left of any word of a warm context that began with the same letters)
        if !shrinking && self.rng.pct(12) {
            target = target.chars().take(self.rng.range(1, 2) as usize).collect();
        }
        if target.is_empty() {
            target = "a".into();
        }
        let tchars: Vec<char> = target.chars().collect();
        let n = tchars.len();
        let final_byte: u8 = if self.rng.pct(50) { 0 } else { self.rng.range(0, 6) as u8 };
        let last_char = tchars[n - 1];

        // learned store, planted before any context exists and held fixed
        let mut store = serde_json::Map::new();
        if cfg.has(PHON_SUG) && self.rng.pct(65) {
            let mut probe: Option<Host> = None;
            let core: String = target.chars().filter(|c| c.is_ascii_alphabetic()).collect();
            let n_entries = self.rng.range(1, 4);
            for _ in 0..n_entries {
                if core.is_empty() {
                    break;
                }
                let cut = self.rng.range(1, core.len() as u64) as usize;
                let w = core[..cut].to_string();
                let cands = self.probe_candidates(&mut probe, cfg.with(SMART_QUOTE, false), &w);
                if !cands.is_empty() {
                    let c = cands[self.rng.usize(cands.len())].clone();
                    store.insert(w, serde_json::Value::String(c));
                }
            }
        }
        // what a learning commit of a wrapped text or of an emoticon's emoji leaves behind: the
        // word part of the target as key, a candidate of the whole target as value
        if cfg.has(PHON_SUG) && self.rng.pct(30) {
            let core: String = target.chars().filter(|c| c.is_ascii_alphabetic()).collect();
            if !core.is_empty() && core != target {
                let mut probe: Option<Host> = None;
                let cands = self.probe_candidates(&mut probe, cfg.with(SMART_QUOTE, false), &target);
                if !cands.is_empty() {
                    let c = cands[self.rng.usize(cands.len())].clone();
                    store.insert(core, serde_json::Value::String(c));
                }
            }
        }
        // the user's auto-correct list: absent, or present from the start; in the "edited"
        // variant it is rewritten by its editor half-way and every context re-loads it (idle
        // update_engine) before the target is typed, so that caches warmed under the earlier
        // version meet the later one. All compared contexts end up with the same version.
        let core_t: String = target.chars().filter(|c| c.is_ascii_alphabetic()).collect();
        let mut ac0 = serde_json::Map::new();
        if !core_t.is_empty() && self.rng.pct(40) {
            for _ in 0..self.rng.range(1, 2) {
                let k = match self.rng.weighted(&[55, 30, 15]) {
                    0 => core_t.clone(),
                    1 => core_t[..self.rng.range(1, core_t.len() as u64) as usize].to_string(),
                    _ => format!("{}{}", core_t, self.short_suffix()),
                };
                let v = self.autocorrect_value();
                ac0.insert(k.to_ascii_lowercase(), serde_json::Value::String(v));
            }
        }
        let edited = self.rng.pct(if ac0.is_empty() { 12 } else { 60 });
        // ... or the list is moved out of the directory and later moved back untouched (same
        // bytes, same modification time), with a re-load of every context in between and after
        let aside_and_back = edited && !ac0.is_empty() && self.rng.pct(20);
        let ac_edit: Option<FileSt> = if aside_and_back {
            Some(FileSt::MoveAside)
        } else if edited {
            let mut ac1 = ac0.clone();
            Some(match self.rng.weighted(&[35, 20, 15, 30]) {
                0 if !ac1.is_empty() => {
                    // an entry is deleted
                    let k = ac1.keys().next().cloned().unwrap();
                    ac1.remove(&k);
                    FileSt::Text(serde_json::Value::Object(ac1).to_string())
                }
                1 if !ac1.is_empty() => {
                    // an entry gets another replacement
                    let k = ac1.keys().next().cloned().unwrap();
                    let v = self.autocorrect_value();
                    ac1.insert(k, serde_json::Value::String(v));
                    FileSt::Text(serde_json::Value::Object(ac1).to_string())
                }
                // every entry is deleted (the file stays: deleting the file itself leaves no
                // mtime to advance and is not an "edit", see C11)
                2 if !ac1.is_empty() => FileSt::Text("{}".into()),
                _ => {
                    // an entry is added (for the target, or for its base)
                    let k = if core_t.is_empty() { "a".to_string() } else { core_t.to_ascii_lowercase() };
                    let v = self.autocorrect_value();
                    ac1.insert(k, serde_json::Value::String(v));
                    FileSt::Text(serde_json::Value::Object(ac1).to_string())
                }
            })
        } else {
            None
        };
        let prelude = Prelude {
            store: if store.is_empty() { None } else { Some(serde_json::Value::Object(store).to_string()) },
            autocorrect: if ac0.is_empty() { None } else { Some(serde_json::Value::Object(ac0).to_string()) },
        };

        // the selection byte of the final key: fixed, or counted from the end of the list
        // shown just before (the same list in every execution, so the same byte)
        let final_sel = if shrinking || self.rng.pct(15) { Sel::Top(self.rng.below(2) as u8) } else { Sel::Raw(final_byte) };
        let final_key = |h: u8| Op::Key { h, key: key_for(self.env, last_char).unwrap_or(0xA096), m: 0, sel: final_sel };
        // per-host op sequences; `splits[i]` = where the part begins that must run after the
        // edit of the auto-correct list (edited variant only)
        let mut seqs: Vec<Vec<Op>> = Vec::new();
        let mut splits: Vec<usize> = Vec::new();
        // X0: fresh context, typed straight
        {
            let mut v = vec![Op::Spawn { h: 0, cfg }];
            let head: String = tchars[..n - 1].iter().collect();
            self.type_text(&mut v, 0, &head, Sel::Presel);
            v.push(final_key(0));
            seqs.push(v);
            splits.push(0);
        }
        let n_exec = self.rng.range(1, 3) as u8;
        for e in 1..=n_exec {
            let h = e;
            // a long session now and then: the memo grows past any plausible bound
            let long_session = e == 1 && self.rng.pct(16);
            let style = if long_session { 1 } else { self.rng.weighted(&[40, 40, 20]) };
            // "the configuration": a warm context may have composed its earlier words under
            // other option settings; update_engine (idle, same layout) brings it to `cfg`
            // before the target is typed
            let mut warm_cfg = cfg;
            if style >= 1 && self.rng.pct(30) {
                self.live_option_flip(&mut warm_cfg, &[ENGLISH, ENGLISH, ANSI, SMART_QUOTE, PHON_SUG]);
            }
            let mut v = vec![Op::Spawn { h, cfg: warm_cfg }];
            if style >= 1 {
                // warm context: earlier words that poison the memo
                let k = if long_session {
                    self.rng.range(25, 70)
                } else {
                    self.rng.range(1, if self.tier == Tier::Quick { 5 } else { 8 })
                };
                for _ in 0..k {
                    let core: String = target.chars().filter(|c| c.is_ascii_alphabetic()).collect();
                    let w = match self.rng.weighted(&if long_session { [4, 4, 2, 90] } else { [30, 25, 25, 20] }) {
                        0 if !core.is_empty() => core[..self.rng.range(1, core.len() as u64) as usize].to_string(),
                        1 if !core.is_empty() => format!("{}{}", core, self.short_suffix()),
                        2 => target.clone(),
                        _ => self.text(),
                    };
                    let w: String = w.chars().take(max_len + 6).collect();
                    self.type_text(&mut v, h, &w, Sel::Presel);
                    let last_alnum = w.chars().last().map(|c| c.is_ascii_alphanumeric()).unwrap_or(false);
                    match self.rng.weighted(&[30, 25, 20, 25]) {
                        0 => v.push(Op::Finish { h }),
                        1 => v.push(Op::Bs { h, ctrl: true }),
                        2 => v.push(Op::Drain { h }),
                        _ => {
                            if last_alnum {
                                v.push(Op::Commit { h, idx: Idx::Presel })
                            } else {
                                v.push(Op::Finish { h })
                            }
                        }
                    }
                }
                if self.rng.pct(30) {
                    // the last warm word begins like the target and is erased key by key
                    // (typing, erasing everything and starting again is a history too)
                    let w: String = format!("{}{}", target, self.random_letters(0, 3)).chars().take(max_len + 3).collect();
                    self.type_text(&mut v, h, &w, Sel::Presel);
                    v.push(Op::Drain { h });
                }
                if warm_cfg != cfg {
                    if self.rng.pct(30) {
                        // (not only once)
                        let mut mid = warm_cfg;
                        self.live_option_flip(&mut mid, &[ENGLISH, ANSI, SMART_QUOTE, PHON_SUG]);
                        v.push(Op::Update { h, cfg: mid });
                    }
                    // (no finish request in front: every warm word has been ended, and a
                    // finish request would wipe what a word ended otherwise left behind)
                    v.push(Op::Update { h, cfg });
                }
                if style == 2 {
                    v.push(Op::Restart { h });
                }
            }
            // reach T by an edit history
            splits.push(v.len());
            let via_bs = self.rng.pct(30);
            let mut cur = 0usize; // number of target chars in the buffer
            let goal = if via_bs { n } else { n - 1 };
            let mut budget = 40;
            while cur < goal {
                if budget > 0 && self.rng.pct(22) {
                    // detour: junk then delete it again
                    let junk = self.random_letters(1, 3);
                    self.type_text(&mut v, h, &junk, Sel::Presel);
                    for _ in 0..junk.len() {
                        v.push(Op::Bs { h, ctrl: false });
                    }
                    budget -= junk.len() * 2;
                } else if budget > 0 && cur > 0 && self.rng.pct(15) {
                    let back = self.rng.range(1, cur as u64) as usize;
                    for _ in 0..back {
                        v.push(Op::Bs { h, ctrl: false });
                    }
                    cur -= back;
                    budget -= back;
                } else {
                    v.push(Op::Key { h, key: key_for(self.env, tchars[cur]).unwrap_or(0xA096), m: 0, sel: Sel::Presel });
                    cur += 1;
                }
            }
            if !via_bs && self.rng.pct(if shrinking { 60 } else { 15 }) {
                // a detour right before the final key: the list of the longer text was the
                // last one a key produced, the backspace shows the target's list again
                let junk = self.random_letters(1, 2);
                self.type_text(&mut v, h, &junk, Sel::Presel);
                for _ in 0..junk.len() {
                    v.push(Op::Bs { h, ctrl: false });
                }
            }
            if via_bs {
                let extra = *self.rng.pick(LETTERS) as char;
                v.push(Op::Key { h, key: key_for(self.env, extra).unwrap(), m: 0, sel: Sel::Presel });
                v.push(Op::Bs { h, ctrl: false });
            } else {
                v.push(final_key(h));
            }
            seqs.push(v);
        }
        // bystander: other configuration, other data profile, never learns
        if self.rng.pct(55) {
            let h = 4u8;
            let mut c = self.any_cfg(0, 50, 50);
            if c.data == cfg.data {
                c.data = if cfg.data == DataKind::None { DataKind::Small } else { DataKind::None };
            }
            let mut v = vec![Op::Spawn { h, cfg: c }];
            let k = self.rng.range(3, 25);
            for _ in 0..k {
                match self.rng.weighted(&[75, 10, 8, 7]) {
                    0 => {
                        let key = if c.is_phonetic() || self.rng.coin() {
                            key_for(self.env, *self.rng.pick(LETTERS) as char).unwrap()
                        } else {
                            self.sharp_key(c.layout)
                        };
                        v.push(Op::Key { h, key, m: 0, sel: Sel::Presel });
                    }
                    1 => v.push(Op::Bs { h, ctrl: false }),
                    2 => v.push(Op::Finish { h }),
                    _ => v.push(Op::Bs { h, ctrl: true }),
                }
            }
            splits.push(v.len() / 2);
            seqs.push(v);
        }
        let ops = match ac_edit {
            None => self.interleave(seqs),
            Some(st) => {
                let mut first: Vec<Vec<Op>> = Vec::new();
                let mut second: Vec<Vec<Op>> = Vec::new();
                for (v, at) in seqs.into_iter().zip(splits) {
                    let h = v.first().and_then(|o| o.host()).unwrap_or(0);
                    let tail = v[at..].to_vec();
                    let mut head = v;
                    head.truncate(at);
                    let mut t = Vec::new();
                    if at > 0 && h != 4 {
                        // the context exists already: it re-loads its configuration while idle
                        if self.rng.coin() {
                            t.push(Op::Finish { h });
                        }
                        t.push(Op::Update { h, cfg });
                    }
                    t.extend(tail);
                    first.push(head);
                    second.push(t);
                }
                let mut ops = self.interleave(first);
                ops.push(Op::Clock { dt: self.clock_step(50) });
                if st == FileSt::MoveAside {
                    // every context that exists re-loads while the list is away
                    let mut mid: Vec<Vec<Op>> = Vec::new();
                    for t in &second {
                        if let Some(Op::Finish { h }) | Some(Op::Update { h, .. }) = t.first() {
                            if self.rng.pct(85) {
                                mid.push(vec![Op::Finish { h: *h }, Op::Update { h: *h, cfg }]);
                            }
                        }
                    }
                    ops.push(Op::SetFile { file: FileId::Autocorrect, st: FileSt::MoveAside, mt: Mt::Now });
                    ops.extend(self.interleave(mid));
                    ops.push(Op::Clock { dt: self.clock_step(50) });
                    ops.push(Op::SetFile { file: FileId::Autocorrect, st: FileSt::MoveBack, mt: Mt::Now });
                } else {
                    ops.push(Op::SetFile { file: FileId::Autocorrect, st, mt: Mt::Now });
                }
                ops.extend(self.interleave(second));
                ops
            }
        };
        Plan { scenario: Scenario::HistoryIndependence, hash_seed: self.rng.next_u64(), prelude, ops }
    }

    /// Random merge preserving each sequence's own order (the scheduler at call granularity).
    fn interleave(&mut self, mut seqs: Vec<Vec<Op>>) -> Vec<Op> {
        let mut idx = vec![0usize; seqs.len()];
        let total: usize = seqs.iter().map(|s| s.len()).sum();
        let mut out = Vec::with_capacity(total);
        // sticky scheduling: keep running the same actor for a while
        let mut cur = 0usize;
        while out.len() < total {
            if idx[cur] >= seqs[cur].len() || self.rng.pct(30) {
                let live: Vec<usize> = (0..seqs.len()).filter(|&i| idx[i] < seqs[i].len()).collect();
                cur = *self.rng.pick(&live);
            }
            out.push(std::mem::replace(&mut seqs[cur][idx[cur]], Op::Heal));
            idx[cur] += 1;
        }
        out
    }

    // ------------------------------------------------------------------ fixed-layout keys

    fn fixed_key_for_value(&mut self, l: &LayoutInfo, v: &str) -> Option<Op> {
        l.by_value.get(v).map(|(k, altgr)| Op::Key {
            h: 0,
            key: *k,
            // Shift must not change the plane: set it at random
            m: (if *altgr { 2 } else { 0 }) | (if self.rng.pct(20) { 1 } else { 0 }),
            sel: Sel::Raw(0),
        })
    }

    /// Keys that type `text` (Bengali) through a fixed layout, if every character has a key.
    fn fixed_keys_for_text(&mut self, l: &LayoutInfo, h: u8, text: &str) -> Option<Vec<Op>> {
        let mut ops = Vec::new();
        for c in text.chars() {
            let (k, altgr) = l.by_value.get(c.to_string().as_str())?;
            ops.push(Op::Key { h, key: *k, m: if *altgr { 2 } else { 0 }, sel: Sel::Raw(0) });
        }
        Some(ops)
    }

    fn values_of_class<'l>(l: &'l LayoutInfo, pred: impl Fn(&str) -> bool) -> Vec<&'l str> {
        l.by_value.keys().map(|s| s.as_str()).filter(|s| pred(s)).collect()
    }

    /// One key of a fixed layout chosen by character class.
    fn fixed_class_key(&mut self, l: &LayoutInfo, reph_weight: u32) -> Op {
        if self.rng.pct(4) && !l.numpad.is_empty() {
            // a number-pad key (its value is only produced while the number-pad option is on);
            // a small pool, so that the same key comes back before and after an update
            let mut keys: Vec<u16> = l.numpad.keys().copied().collect();
            keys.sort();
            let k = keys[self.rng.usize(keys.len().min(4))];
            return Op::Key { h: 0, key: k, m: 0, sel: Sel::Raw(0) };
        }
        let single = |s: &str| s.chars().count() == 1;
        let first = |s: &str| s.chars().next().unwrap();
        let class = self.rng.weighted(&[26, 16, 10, 8, 6, 6, reph_weight, 4, 4, 6, 3, 2, 3, 3, 3]);
        let vals: Vec<&str> = match class {
            0 => Self::values_of_class(l, |s| single(s) && fm::is_consonant(first(s))),
            1 => Self::values_of_class(l, |s| single(s) && fm::is_mapped_kar(first(s))),
            2 => vec!["\u{09CD}"],
            3 => Self::values_of_class(l, |s| single(s) && fm::is_independent_vowel(first(s))),
            4 => vec!["\u{0981}"],
            5 => vec!["\u{09B0}"],
            6 => vec![fm::REPH],
            7 => vec![fm::ZOFOLA],
            8 => Self::values_of_class(l, |s| !single(s)),
            9 => Self::values_of_class(l, |s| single(s) && first(s).is_ascii_punctuation()),
            10 => vec!["\u{09D7}", "\u{200C}", "\u{200D}", "\u{09BC}"],
            11 => Self::values_of_class(l, |s| single(s) && ('\u{09E6}'..='\u{09EF}').contains(&first(s))),
            12 => vec!["\u{09C1}", "\u{09C2}", "\u{09C3}"],
            // characters beyond the Bengali block (2, 3 and 4 bytes; a layout may bind any)
            14 => Self::values_of_class(l, |s| s.chars().any(|c| c > '\u{09FF}' && c != '\u{200C}' && c != '\u{200D}') || s.chars().all(|c| ('\u{0080}'..'\u{0980}').contains(&c) || c.is_ascii_alphabetic())),
            _ => Self::values_of_class(l, |_| true),
        };
        let vals: Vec<&str> = vals.into_iter().filter(|v| l.by_value.contains_key(*v)).collect();
        if vals.is_empty() {
            let all: Vec<&str> = l.by_value.keys().map(|s| s.as_str()).collect();
            let v = *self.rng.pick(&all);
            return self.fixed_key_for_value(l, v).unwrap();
        }
        let v = *self.rng.pick(&vals);
        self.fixed_key_for_value(l, v).unwrap()
    }

    /// A short burst of fixed-layout keys aimed at the states the composer distinguishes: a
    /// prefix that sets the state up (a left-standing sign first, a consonant, a hasanta, a
    /// chandrabindu, ...) and then one to three keys of the classes that meet it specially
    /// (every sign including the one without an independent vowel, length mark, joiners,
    /// reph, folas, hasanta, chandrabindu, ...). Returns (key code, modifier) pairs.
    pub fn fixed_sharp_burst(&mut self, l: &LayoutInfo) -> Vec<(u16, u8)> {
        let single = |s: &str| s.chars().count() == 1;
        let first = |s: &str| s.chars().next().unwrap();
        let cons: Vec<&str> = Self::values_of_class(l, |s| single(s) && fm::is_consonant(first(s)));
        let kars: Vec<&str> = Self::values_of_class(l, |s| single(s) && fm::is_mapped_kar(first(s)));
        let vows: Vec<&str> = Self::values_of_class(l, |s| single(s) && fm::is_independent_vowel(first(s)));
        let left = ["\u{09BF}", "\u{09C7}", "\u{09C8}"];
        let mut vals: Vec<String> = Vec::new();
        let c = |g: &mut Gen| -> String { if cons.is_empty() { "\u{0995}".to_string() } else { g.rng.pick(&cons).to_string() } };
        let lft = |g: &mut Gen| -> String { g.rng.pick(&left).to_string() };
        match self.rng.below(9) {
            0 => {}
            1 => vals.push(lft(self)),
            2 => { vals.push(lft(self)); vals.push(c(self)); }
            3 => { vals.push(lft(self)); vals.push(c(self)); vals.push("\u{09CD}".into()); }
            4 => { vals.push(c(self)); vals.push("\u{09CD}".into()); }
            5 => { vals.push(c(self)); vals.push(lft(self)); }
            6 => { vals.push(c(self)); vals.push("\u{0981}".into()); }
            7 => { vals.push(c(self)); if !kars.is_empty() { vals.push(self.rng.pick(&kars).to_string()); } }
            _ => vals.push("\u{09CD}".into()),
        }
        for _ in 0..self.rng.range(1, 3) {
            let v: String = match self.rng.weighted(&[14, 18, 6, 8, 8, 8, 8, 8, 8, 6, 8]) {
                0 => "\u{09C4}".into(),
                1 if !kars.is_empty() => self.rng.pick(&kars).to_string(),
                2 => "\u{09D7}".into(),
                3 => (*self.rng.pick(&["\u{200C}", "\u{200D}"])).to_string(),
                4 => fm::REPH.into(),
                5 => fm::ZOFOLA.into(),
                6 => "\u{09CD}\u{09B0}".into(),
                7 => "\u{09CD}".into(),
                8 => "\u{0981}".into(),
                9 if !vows.is_empty() => self.rng.pick(&vows).to_string(),
                _ => c(self),
            };
            vals.push(v);
        }
        let mut out = Vec::new();
        for v in vals {
            if let Some(Op::Key { key, m, .. }) = self.fixed_key_for_value(l, &v) {
                out.push((key, m));
            }
        }
        out
    }

    // ------------------------------------------------------------------ C06

    fn gen_session_reset(&mut self) -> Plan {
        let mut cfg = if self.rng.pct(45) {
            self.phonetic_cfg(3, 67, 30, 75)
        } else {
            let mut c = self.fixed_cfg(55, 2, 58, 40);
            // where the three pieces of fixed-method state diverge
            if self.rng.pct(55) {
                c.opts |= KAR_ORDER;
            }
            if self.rng.pct(55) {
                c.opts |= FIXED_SUG | ENGLISH;
                c.opts &= !ANSI;
            }
            c
        };
        let mut ops = vec![Op::Spawn { h: 0, cfg }];
        let l = self.env.layout(cfg.layout);
        let word_ops = |g: &mut Gen, ops: &mut Vec<Op>, n: usize| {
            match l {
                None => {
                    let t: String = if n > 12 {
                        // a composition of several dozen keys
                        let w = g.word();
                        let mut t = String::new();
                        while t.len() < n {
                            t.push_str(if g.rng.pct(60) { &w } else { "o" });
                            if g.rng.pct(30) {
                                t.push(*g.rng.pick(LETTERS) as char);
                            }
                        }
                        t.chars().take(n).collect()
                    } else {
                        g.text().chars().take(n.max(1)).collect()
                    };
                    g.type_text(ops, 0, &t, Sel::Presel);
                    if g.rng.pct(30) {
                        for _ in 0..g.rng.range(1, 3) {
                            ops.push(Op::Bs { h: 0, ctrl: false });
                        }
                    }
                }
                Some(l) => {
                    if g.rng.pct(14) {
                        // a key that composes nothing while idle (the vowel sign without an
                        // independent form under auto vowel, a key without a value), then
                        // most often a backspace while still idle
                        let op = match l.by_value.get("\u{09C4}") {
                            Some((k, altgr)) if g.rng.pct(70) => Op::Key { h: 0, key: *k, m: if *altgr { 2 } else { 0 }, sel: Sel::Raw(0) },
                            _ => Op::Key { h: 0, key: g.env.keys.keys.iter().find(|k| k.name == "VC_KP_ENTER").map(|k| k.code).unwrap_or(0x0E1C), m: 0, sel: Sel::Raw(0) },
                        };
                        ops.push(op);
                        if g.rng.pct(70) {
                            ops.push(Op::Bs { h: 0, ctrl: g.rng.pct(25) });
                        }
                    }
                    for _ in 0..n.max(1) {
                        if g.rng.pct(22) {
                            // left-standing signs: the pending-sign state
                            let v = *g.rng.pick(&["\u{09BF}", "\u{09C7}", "\u{09C8}"]);
                            if let Some(op) = g.fixed_key_for_value(l, v) {
                                ops.push(op);
                                continue;
                            }
                        }
                        if g.rng.pct(12) {
                            ops.push(Op::Bs { h: 0, ctrl: false });
                        } else {
                            ops.push(g.fixed_class_key(l, 4));
                        }
                    }
                }
            }
        };
        // a long session before H now and then (memo and other per-context state grow)
        if self.rng.pct(if cfg.is_phonetic() { 5 } else { 2 }) {
            let words = self.rng.range(20, 60);
            for _ in 0..words {
                let n = self.rng.range(2, 9) as usize;
                word_ops(self, &mut ops, n);
                let t = self.terminator(0, true);
                ops.push(t);
            }
        }
        // history H (now and then a composition of several dozen keys: buffers that grow
        // past their first capacity, lists of long words)
        let n = if self.rng.pct(6) { self.rng.range(18, 48) as usize } else { self.rng.range(1, 10) as usize };
        let h_start = ops.len();
        // a family of words in the history: a stem is learned, the stem with a known suffix is
        // composed and ended, the stem is learned again with another candidate - and the
        // continuation composes the suffixed form again (what the ended word left behind was
        // derived from a choice that has been replaced since)
        let mut family_word: Option<String> = None;
        if cfg.is_phonetic() && cfg.has(PHON_SUG) && self.rng.pct(8) {
            let digraph = self.rng.pct(40);
            let stem: String = if digraph {
                // a very short learned word: two letters that make one character
                self.rng.pick(&["sh", "ng", "ee", "ou", "aa", "kh", "gh", "ch", "th", "dh", "ph", "bh", "oi", "rr", "OI", "Sh"]).to_string()
            } else {
                self.rng.pick(&self.env.dict_spellings).chars().filter(|c| c.is_ascii_alphabetic()).take(5).collect()
            };
            if !stem.is_empty() {
                let suffixed = if digraph {
                    // ... and later a word that begins with its first letter
                    format!("{}{}", &stem[..1], self.random_letters(0, 3))
                } else {
                    format!("{}{}", stem, self.short_suffix())
                };
                self.type_text(&mut ops, 0, &stem, Sel::Presel);
                ops.push(Op::Commit { h: 0, idx: Idx::Rel(self.rng.range(1, 3) as u8) });
                self.type_text(&mut ops, 0, &suffixed, Sel::Presel);
                let t = self.terminator(0, false);
                ops.push(t);
                self.type_text(&mut ops, 0, &stem, Sel::Presel);
                // (the terminating event below is most often a commit of another candidate)
                family_word = Some(suffixed);
            }
        }
        if family_word.is_none() {
            word_ops(self, &mut ops, n);
        }
        let h_ops: Vec<Op> = if family_word.is_some() { Vec::new() } else { ops[h_start..].to_vec() };
        // terminating event
        match self.rng.weighted(&if family_word.is_some() { [85, 5, 5, 5] } else { [30, 25, 20, 25] }) {
            0 => ops.push(Op::Commit { h: 0, idx: if family_word.is_some() { Idx::Other(self.rng.next_u64() as u8) } else { Idx::Rel(self.rng.next_u64() as u8) } }),
            1 => ops.push(Op::Finish { h: 0 }),
            2 => ops.push(Op::Bs { h: 0, ctrl: true }),
            _ => ops.push(Op::Drain { h: 0 }),
        }
        // "a newly created context with the same configuration": in a fifth of the runs the
        // configuration is not the one the used context composed its earlier words with (an
        // option switched by update_engine while idle, same layout); what the earlier words
        // left behind was computed under the old setting
        let flippable: Vec<u16> = if cfg.is_phonetic() {
            vec![ENGLISH, ANSI, SMART_QUOTE, PHON_SUG, ENGLISH, SMART_QUOTE]
        } else {
            vec![VOWEL, CHANDRA, KAR, KAR, OLD_REPH, NUMPAD, KAR_ORDER, ENGLISH, SMART_QUOTE, FIXED_SUG]
        };
        let switching = self.rng.pct(20);
        if switching {
            self.live_option_flip(&mut cfg, &flippable);
            ops.push(Op::Update { h: 0, cfg });
        }
        ops.push(Op::Fork { h: 0 });
        // continuation K
        let k = self.rng.range(1, 5);
        for _ in 0..k {
            if switching && self.rng.pct(25) {
                // ... and again between two words of the continuation (on both contexts)
                ops.push(Op::Finish { h: 0 });
                self.live_option_flip(&mut cfg, &flippable);
                ops.push(Op::Update { h: 0, cfg });
            }
            if self.rng.pct(10) {
                ops.push(Op::Bs { h: 0, ctrl: false }); // backspace while idle
            }
            let n = if self.rng.pct(4) { self.rng.range(18, 48) as usize } else { self.rng.range(1, 8) as usize };
            if let Some(w) = family_word.take() {
                self.type_text(&mut ops, 0, &w, Sel::Presel);
            } else if !h_ops.is_empty() && self.rng.pct(22) {
                // the same word (or a beginning of it) again
                let upto = if self.rng.coin() { h_ops.len() } else { self.rng.range(1, h_ops.len() as u64) as usize };
                ops.extend(h_ops[..upto].iter().cloned());
            } else {
                word_ops(self, &mut ops, n);
            }
            match self.rng.weighted(&[30, 20, 15, 20, 15]) {
                0 => ops.push(Op::Commit { h: 0, idx: Idx::Rel(self.rng.next_u64() as u8) }),
                1 => ops.push(Op::Finish { h: 0 }),
                2 => ops.push(Op::Bs { h: 0, ctrl: true }),
                3 => ops.push(Op::Drain { h: 0 }),
                _ => {}
            }
        }
        // fault-injecting configuration: the directory cannot be written from the start, or
        // single saves fail (the lock-step comparison pauses while the context knows a choice
        // the disk does not hold; the session-flag clauses are judged throughout)
        if cfg.is_phonetic() && cfg.has(PHON_SUG) && self.rng.pct(12) {
            self.inject_save_faults(&mut ops, true);
        }
        Plan { scenario: Scenario::SessionReset, hash_seed: self.rng.next_u64(), prelude: Prelude::default(), ops }
    }

    // ------------------------------------------------------------------ C09

    /// Types `text`, then makes riti's own preselection visible (a letter and a backspace
    /// when the text ends in punctuation).
    pub fn type_and_refresh(&mut self, ops: &mut Vec<Op>, h: u8, text: &str) {
        self.type_text(ops, h, text, Sel::Presel);
        let last_alnum = text.chars().last().map(|c| c.is_ascii_alphanumeric()).unwrap_or(false);
        if !last_alnum {
            let c = *self.rng.pick(LETTERS) as char;
            ops.push(Op::Key { h, key: key_for(self.env, c).unwrap(), m: 0, sel: Sel::Presel });
            ops.push(Op::Bs { h, ctrl: false });
        }
    }

    fn learn_text(&mut self) -> String {
        if self.rng.pct(9) {
            // an emoticon that is meta characters + letters ("=s", ";p", "xD"): its emoji is
            // the one candidate that is not wrapped like the others
            let with_letters: Vec<&&str> = self.env.emoticons.iter().filter(|e| crate::learn::split_text(e).is_some()).collect();
            if !with_letters.is_empty() {
                return self.rng.pick(&with_letters).to_string();
            }
        }
        if self.rng.pct(15) && !self.env.joining_spellings.is_empty() {
            // a word whose candidates end in KHANDA TA or ANUSVARA (the joining rules)
            return self.rng.pick(&self.env.joining_spellings).clone();
        }
        let w = match self.rng.weighted(&[45, 20, 20, 15]) {
            0 => self.rng.pick(&self.env.dict_spellings).clone(),
            1 => self.rng.pick(&self.env.autocorrect_words).clone(),
            2 => self.random_letters(1, 6),
            _ => self.rng.pick(&self.env.emoji_names).to_string(),
        };
        let w: String = w.chars().take(10).collect();
        if self.rng.pct(30) {
            self.wrap(&w, 2)
        } else {
            w
        }
    }

    fn gen_learned_durability(&mut self) -> Plan {
        let (full, small) = match self.tier {
            Tier::Quick => (15, 85),
            Tier::Thorough => (50, 50),
        };
        let mut cfg = self.phonetic_cfg(full, small, 0, 100);
        cfg.opts |= PHON_SUG;
        let mut ops = vec![Op::Spawn { h: 0, cfg }];
        let mut learned: Vec<String> = Vec::new();
        // "later in the same context": in some runs a second application uses the keyboard over
        // the same directory. It is started first and learns later, so its saves write a map
        // without the first context's choices over the store; the user's auto-correct list is
        // edited and the first context re-loads its configuration. What the first context has
        // learned it must still know (nothing is demanded of a restart in these runs: between
        // two live writers the last one wins, which no statement excludes).
        let two_writers = self.rng.pct(8);
        if two_writers {
            ops.push(Op::Spawn { h: 1, cfg });
        }
        let mut other_saved = false;
        // a user who has been learning for years: now and then the store already holds several
        // hundred choices (tens of kilobytes), a few of them for words this run types again
        let mut prelude = Prelude::default();
        if self.rng.pct(7) {
            let mut m = serde_json::Map::new();
            let n = self.rng.range(150, 900);
            for i in 0..n {
                let k = format!("zq{}{}", self.random_letters(4, 6).to_ascii_lowercase(), i);
                let k: String = k.chars().map(|c| if c.is_ascii_digit() { (b'a' + (c as u8 - b'0')) as char } else { c }).collect();
                let v: String = (0..self.rng.range(2, 5)).map(|_| char::from_u32(0x0995 + self.rng.below(30) as u32).unwrap()).collect();
                m.insert(k, serde_json::Value::String(v));
            }
            let mut probe: Option<Host> = None;
            for _ in 0..self.rng.range(1, 3) {
                let w: String = self.rng.pick(&self.env.dict_spellings).chars().filter(|c| c.is_ascii_alphabetic()).take(8).collect();
                if w.is_empty() {
                    continue;
                }
                let cands = self.probe_candidates(&mut probe, cfg.with(SMART_QUOTE, false), &w);
                if cands.len() > 1 {
                    let c = cands[1 + self.rng.usize(cands.len() - 1)].clone();
                    m.insert(w.clone(), serde_json::Value::String(c));
                    learned.push(w);
                }
            }
            prelude.store = Some(serde_json::Value::Object(m).to_string());
        }
        let words = self.rng.range(2, 12);
        let mut restarts = 0;
        for _ in 0..words {
            let retype = !learned.is_empty() && self.rng.pct(45);
            let text = if retype {
                let t = self.rng.pick(&learned).clone();
                match self.rng.weighted(&[60, 40]) {
                    0 => t,
                    _ => {
                        // base + known suffix (only meaningful for unwrapped bases)
                        let core: String = t.chars().filter(|c| c.is_ascii_alphabetic()).collect();
                        format!("{}{}", core, self.short_suffix())
                    }
                }
            } else {
                self.learn_text()
            };
            self.type_and_refresh(&mut ops, 0, &text);
            match self.rng.weighted(&[if retype { 15 } else { 60 }, 25, 15]) {
                0 => {
                    ops.push(Op::Commit { h: 0, idx: self.learn_idx() });
                    learned.push(text);
                }
                1 => ops.push(Op::Commit { h: 0, idx: Idx::Presel }),
                _ => ops.push(Op::Finish { h: 0 }),
            }
            if self.rng.pct(9) {
                // the candidate list is switched off for a word or two (update_engine while
                // idle): what is committed then is the one string shown, which is nobody's
                // choice; the learned choices must be there when the list comes back
                ops.push(Op::Update { h: 0, cfg: cfg.with(PHON_SUG, false) });
                for _ in 0..self.rng.range(1, 3) {
                    let t = if !learned.is_empty() && self.rng.pct(50) { self.rng.pick(&learned).clone() } else { self.learn_text() };
                    self.type_text(&mut ops, 0, &t, Sel::Presel);
                    match self.rng.weighted(&[70, 30]) {
                        0 => ops.push(Op::Commit { h: 0, idx: Idx::Rel(0) }),
                        _ => ops.push(Op::Finish { h: 0 }),
                    }
                }
                if !two_writers && self.rng.pct(15) {
                    ops.push(Op::Restart { h: 0 });
                }
                ops.push(Op::Update { h: 0, cfg });
            }
            if two_writers && !learned.is_empty() && self.rng.pct(if other_saved { 25 } else { 60 }) {
                let t = self.learn_text();
                self.type_and_refresh(&mut ops, 1, &t);
                ops.push(Op::Commit { h: 1, idx: self.learn_idx() });
                other_saved = true;
                if self.rng.pct(70) {
                    let w: String = self.word().chars().filter(|c| c.is_ascii_alphabetic()).take(8).collect();
                    if !w.is_empty() {
                        let doc = self.autocorrect_doc(&w);
                        ops.push(Op::Clock { dt: self.clock_step(20) });
                        ops.push(Op::SetFile { file: FileId::Autocorrect, st: FileSt::Text(doc), mt: Mt::Now });
                        ops.push(Op::Update { h: 0, cfg });
                    }
                }
            }
            if !two_writers && restarts < 4 && self.rng.pct(22) {
                ops.push(Op::Restart { h: 0 });
                restarts += 1;
            }
        }
        // final pass: everything learned is retyped once more, after a restart half the time
        if !two_writers && self.rng.coin() {
            ops.push(Op::Restart { h: 0 });
        }
        let mut again = learned.clone();
        again.truncate(6);
        for t in again {
            self.type_and_refresh(&mut ops, 0, &t);
            ops.push(Op::Finish { h: 0 });
        }
        Plan { scenario: Scenario::LearnedDurability, hash_seed: self.rng.next_u64(), prelude, ops }
    }

    // ------------------------------------------------------------------ C10

    fn malformed_doc(&mut self) -> FileSt {
        let docs: [&str; 16] = [
            "",
            "{",
            "{\"a\":",
            "{\"a\":\"b\",}",
            "{\"a\":\"b\"",
            "nul",
            "\"just a string\"",
            "42",
            "\u{FEFF}{\"a\":\"b\"}",
            "{\"a\":\"b\"}{\"c\":\"d\"}",
            "{\"a\":\"b\"} trailing",
            "{'a':'b'}",
            "{\"a\":\"\\ud800\"}",
            "[[[[[[[[[[[[[[[[[[[[[[[[[[[[[[[[",
            "{\"a\":\"b\",\"a\":}",
            " \n\t ",
        ];
        match self.rng.weighted(&[80, 10, 10]) {
            0 => FileSt::Text(self.rng.pick(&docs).to_string()),
            1 => FileSt::Hex("7b2261223a22ff fe22 7d".replace(' ', "")), // invalid UTF-8 inside a string
            _ => FileSt::Hex("7b226100223a2262227d00".into()),           // NUL bytes
        }
    }

    fn wrong_shape_doc(&mut self) -> FileSt {
        let docs: [&str; 9] = [
            "[]",
            "null",
            "\"s\"",
            "{\"a\":1}",
            "{\"a\":null}",
            "{\"a\":[\"b\"]}",
            "{\"a\":{\"b\":\"c\"}}",
            "true",
            "[{\"a\":\"b\"}]",
        ];
        FileSt::Text(self.rng.pick(&docs).to_string())
    }

    fn empty_strings_doc(&mut self, words: &[String]) -> FileSt {
        let w = if words.is_empty() { "desh".to_string() } else if self.rng.pct(60) { words[0].clone() } else { self.rng.pick(words).clone() };
        let core: String = w.chars().filter(|c| c.is_ascii_alphabetic()).collect();
        let docs = [
            format!("{{\"{}\":\"\"}}", core),
            "{\"\":\"x\"}".to_string(),
            "{\"\":\"\"}".to_string(),
            format!("{{\"{}\":\"\",\"a\":\"\"}}", core),
        ];
        FileSt::Text(self.rng.pick(&docs).clone())
    }

    /// A replacement text for the user's auto-correct list: normally Avro-style Latin
    /// text, but a user may just as well enter the Bengali text (or an emoji) directly.
    /// A valid auto-correct document with an entry for `core`. Now and then the entries refer
    /// to one another: the replacement of one word is itself a word of the list (a chain, two
    /// entries naming each other, an entry naming itself) - legal, and what "a short form of a
    /// short form" looks like.
    pub fn autocorrect_doc(&mut self, core: &str) -> String {
        let mut m = serde_json::Map::new();
        if self.rng.pct(14) {
            let other = if self.rng.coin() { format!("{}{}", core, self.short_suffix()) } else { self.random_letters(3, 6).to_ascii_lowercase() };
            match self.rng.weighted(&[45, 35, 20]) {
                0 => {
                    m.insert(core.to_string(), serde_json::Value::String(other.clone()));
                    m.insert(other, serde_json::Value::String(core.to_string()));
                }
                1 => {
                    let third = self.autocorrect_value();
                    m.insert(core.to_string(), serde_json::Value::String(other.clone()));
                    m.insert(other, serde_json::Value::String(third));
                }
                _ => {
                    m.insert(core.to_string(), serde_json::Value::String(core.to_string()));
                }
            }
        } else {
            let v = self.autocorrect_value();
            m.insert(core.to_string(), serde_json::Value::String(v));
        }
        serde_json::Value::Object(m).to_string()
    }

    pub fn autocorrect_value(&mut self) -> String {
        match self.rng.weighted(&[70, 12, 8, 5, 5]) {
            0 => self.random_letters(2, 6).to_ascii_lowercase(),
            1 => "\u{09B8}\u{09BE}\u{09B0}".to_string(),
            2 => format!("{}\u{0995}\u{09BF}", self.random_letters(1, 3).to_ascii_lowercase()),
            3 => "\u{1F600}".to_string(),
            _ => "caf\u{00E9}".to_string(),
        }
    }

    fn gen_userfile_faults(&mut self) -> Plan {
        let (full, small) = match self.tier {
            Tier::Quick => (4, 96),
            Tier::Thorough => (15, 85),
        };
        let mut cfg = self.phonetic_cfg(full, small, 0, 100);
        cfg.opts |= PHON_SUG;
        // swarm: which fault kinds are enabled at all in this run
        let en: Vec<bool> = (0..10).map(|_| self.rng.pct(45)).collect();
        let any = en.iter().any(|b| *b);
        let n_hosts = if self.rng.pct(30) { 2 } else { 1 };
        let mut ops: Vec<Op> = Vec::new();
        let mut words: Vec<String> = (0..self.rng.range(2, 5)).map(|_| self.learn_text()).collect();
        // sometimes start from a damaged disk
        let mut prelude = Prelude::default();
        if self.rng.pct(25) {
            prelude.store = Some(match self.rng.weighted(&[40, 30, 30]) {
                0 => "{\"desh\":\"\u{09A6}\u{09C7}\u{09B6}\"}".to_string(),
                1 => "{\"desh\":".to_string(),
                _ => "[]".to_string(),
            });
            if !words.iter().any(|w| w == "desh") {
                words.push("desh".into());
            }
        }
        for h in 0..n_hosts {
            ops.push(Op::Spawn { h: h as u8, cfg });
        }
        let steps = self.rng.range(4, if self.tier == Tier::Quick { 14 } else { 22 });
        let mut fault_budget = self.rng.range(1, 4);
        // most of a run is about one word: multi-step chains (learn it, damage a file around
        // it, learn it again, type it with a suffix) need the same word again and again
        let focus = words[0].clone();
        for _ in 0..steps {
            let h = self.rng.usize(n_hosts) as u8;
            // fault, placed right before the operation it should bite
            let mut next: u32 = self.rng.weighted(&[45, 15, 12, 8, 8, 12]) as u32; // commit-word, restart, spawn, update, retype, editor
            if any && fault_budget > 0 && self.rng.pct(45) {
                fault_budget -= 1;
                let kinds: Vec<usize> = (0..10).filter(|i| en[*i]).collect();
                let k = *self.rng.pick(&kinds);
                match k {
                    0 => {
                        let file = if self.rng.pct(70) { FileId::Store } else { FileId::Autocorrect };
                        let st = if self.rng.coin() { FileSt::Absent } else { FileSt::Text(String::new()) };
                        ops.push(Op::SetFile { file, st, mt: Mt::Now });
                        next = 1 + self.rng.below(3) as u32;
                    }
                    1 => {
                        // torn save: crash inside the engine's own save
                        ops.push(Op::Arm { fault: WriteFault::CrashAfter(self.rng.next_u64() as u32) });
                        next = 0;
                    }
                    2 => {
                        let file = if self.rng.pct(70) { FileId::Store } else { FileId::Autocorrect };
                        ops.push(Op::SetFile { file, st: FileSt::Truncate(self.rng.next_u64() as u32), mt: Mt::Now });
                        next = 1 + self.rng.below(3) as u32;
                    }
                    3 => {
                        let file = if self.rng.pct(60) { FileId::Store } else { FileId::Autocorrect };
                        let st = if self.rng.pct(30) {
                            // a well-formed document for the run's word with something behind it
                            // (a shorter overwrite in front of the stale tail of a longer file)
                            let core: String = focus.chars().filter(|c| c.is_ascii_alphabetic()).collect();
                            let head = if core.is_empty() { "{\"a\":\"b\"}".to_string() } else { self.autocorrect_doc(&core) };
                            let tail = *self.rng.pick(&["}", "\"}", " x", "{\"k\":\"v\"}", ",\"z\":\"y\"}", "]", "\u{0}"]);
                            FileSt::Text(format!("{}{}", head, tail))
                        } else {
                            self.malformed_doc()
                        };
                        ops.push(Op::SetFile { file, st, mt: Mt::Now });
                        next = 1 + self.rng.below(3) as u32;
                    }
                    4 => {
                        let file = if self.rng.pct(60) { FileId::Store } else { FileId::Autocorrect };
                        let st = self.wrong_shape_doc();
                        ops.push(Op::SetFile { file, st, mt: Mt::Now });
                        next = 1 + self.rng.below(3) as u32;
                    }
                    5 => {
                        let file = if self.rng.pct(60) { FileId::Store } else { FileId::Autocorrect };
                        let st = self.empty_strings_doc(&words);
                        ops.push(Op::SetFile { file, st, mt: Mt::Now });
                        next = 1 + self.rng.below(2) as u32;
                    }
                    6 => {
                        ops.push(Op::SetFile { file: FileId::Store, st: FileSt::BitFlip(self.rng.next_u64() as u32, 1 << self.rng.below(8)), mt: Mt::Now });
                        next = 1;
                    }
                    7 => {
                        let st = if self.rng.coin() { DirState::Missing } else { DirState::ReadOnly };
                        ops.push(Op::SetDir { st });
                        next = if self.rng.coin() { 0 } else { 1 };
                        if self.rng.pct(30) {
                            // a long outage: several learning commits in a row fail to save
                            // before the directory is back ("loses at most that one" has no
                            // limit on how often it happens), then one more commit
                            for _ in 0..self.rng.range(3, 9) {
                                let t = if self.rng.pct(50) { self.rng.pick(&words).clone() } else {
                                    let t = self.learn_text();
                                    words.push(t.clone());
                                    t
                                };
                                self.type_and_refresh(&mut ops, h, &t);
                                ops.push(Op::Commit { h, idx: self.learn_idx() });
                            }
                            ops.push(Op::Heal);
                            next = 0;
                        }
                    }
                    8 => {
                        let fault = match self.rng.weighted(&[20, 20, 15, 25, 20]) {
                            0 => WriteFault::OpenFails(ErrKind::NotFound),
                            1 => WriteFault::OpenFails(ErrKind::Access),
                            2 => WriteFault::OpenFails(ErrKind::Rofs),
                            3 => WriteFault::FailsAfter(self.rng.next_u64() as u32, ErrKind::NoSpace),
                            _ => WriteFault::FailsAfter(self.rng.next_u64() as u32, ErrKind::Io),
                        };
                        ops.push(Op::Arm { fault });
                        next = 0;
                    }
                    _ => {
                        // lost write: a save, then power loss before the flush
                        next = 6;
                    }
                }
            }
            match next {
                0 | 6 => {
                    // a learning commit
                    let t = match self.rng.weighted(&[45, 30, 25]) {
                        0 => focus.clone(),
                        1 => self.rng.pick(&words).clone(),
                        _ => {
                            let t = self.learn_text();
                            words.push(t.clone());
                            t
                        }
                    };
                    self.type_and_refresh(&mut ops, h, &t);
                    ops.push(Op::Commit { h, idx: self.learn_idx() });
                    if next == 6 {
                        ops.push(Op::PowerLoss);
                        for hh in 0..n_hosts {
                            ops.push(Op::Restart { h: hh as u8 });
                        }
                    } else if self.rng.pct(35) {
                        ops.push(Op::Clock { dt: 31_000_000_000 });
                    }
                }
                1 => ops.push(Op::Restart { h }),
                2 => ops.push(Op::Spawn { h: self.rng.usize(2) as u8, cfg }),
                3 => {
                    if self.rng.pct(30) {
                        // to fixed and back
                        let f = self.fixed_cfg(50, 0, 100, 0);
                        ops.push(Op::Finish { h });
                        ops.push(Op::Update { h, cfg: CfgSpec { data: cfg.data, ..f } });
                        ops.push(Op::Finish { h });
                        ops.push(Op::Update { h, cfg });
                    } else {
                        ops.push(Op::Finish { h });
                        ops.push(Op::Update { h, cfg });
                    }
                }
                4 if self.rng.pct(40) => {
                    // re-loading the configuration while a word is being composed, then a
                    // commit of what was shown before (C10 names re-loading without an idle
                    // premise; only "keeps working" is judged for it)
                    let t = if self.rng.coin() { focus.clone() } else { self.rng.pick(&words).clone() };
                    self.type_text(&mut ops, h, &t, Sel::Presel);
                    ops.push(Op::Update { h, cfg });
                    ops.push(if self.rng.coin() { Op::Commit { h, idx: self.learn_idx() } } else { Op::Finish { h } });
                }
                4 => {
                    // retype something (base + suffix half the time) and leave it
                    let t = if self.rng.coin() { focus.clone() } else { self.rng.pick(&words).clone() };
                    let t = if self.rng.coin() {
                        let core: String = t.chars().filter(|c| c.is_ascii_alphabetic()).collect();
                        format!("{}{}", core, self.short_suffix())
                    } else { t };
                    self.type_and_refresh(&mut ops, h, &t);
                    ops.push(if self.rng.coin() { Op::Finish { h } } else { Op::Commit { h, idx: Idx::Presel } });
                }
                _ => {
                    // the editor rewrites the user's auto-correct list (valid document)
                    let w = if self.rng.pct(60) { focus.clone() } else { self.rng.pick(&words).clone() };
                    let core: String = w.chars().filter(|c| c.is_ascii_alphabetic()).collect();
                    let doc = self.autocorrect_doc(&core);
                    ops.push(Op::Clock { dt: 1_000_000_000 });
                    let mt = match self.rng.weighted(&[72, 8, 12, 8]) {
                        0 => Mt::Now,
                        1 => Mt::Tie,
                        3 => Mt::Ahead(self.rng.range(1, 200 * 365 * 86_400) * 1_000_000_000),
                        _ => Mt::Back(self.rng.range(1, 100_000) * 1_000_000_000),
                    };
                    ops.push(Op::SetFile { file: FileId::Autocorrect, st: FileSt::Text(doc), mt });
                    if self.rng.pct(40) {
                        ops.push(Op::Finish { h });
                        ops.push(Op::Update { h, cfg });
                    }
                }
            }
            if self.rng.pct(25) {
                ops.push(Op::Clock { dt: self.clock_step(90) });
            }
        }
        // faults stop; recovery within one commit
        ops.push(Op::Heal);
        for h in 0..n_hosts {
            if self.rng.coin() {
                ops.push(Op::Restart { h: h as u8 });
            }
        }
        let t = self.rng.pick(&words).clone();
        self.type_and_refresh(&mut ops, 0, &t);
        ops.push(Op::Commit { h: 0, idx: self.learn_idx() });
        ops.push(Op::Restart { h: 0 });
        self.type_and_refresh(&mut ops, 0, &t);
        ops.push(Op::Finish { h: 0 });
        Plan { scenario: Scenario::UserfileFaults, hash_seed: self.rng.next_u64(), prelude, ops }
    }

    // ------------------------------------------------------------------ C11

    fn gen_reconfigure(&mut self) -> Plan {
        let data = self.data_kind(if self.tier == Tier::Quick { 4 } else { 15 }, 80, 16);
        let a = { let mut c = self.any_cfg(1, 1, 1); c.data = data; if self.rng.pct(60) { c.layout = LayoutKind::Phonetic; c.opts |= PHON_SUG; } c };
        let b = {
            let mut c = match self.rng.weighted(&[50, 50]) {
                0 => { let mut c = a; let flips = self.rng.range(0, 4); for _ in 0..flips { c.opts ^= 1 << self.rng.below(11); } c }
                _ => self.any_cfg(1, 1, 1),
            };
            c.data = data;
            c
        };
        // a fixed layout replaced by the user's customised copy of the same file in another
        // directory (same file name), or the other way round
        let (a, b) = if self.rng.pct(6) {
            let mut a2 = a;
            let mut b2 = b;
            a2.layout = if self.rng.coin() { LayoutKind::Probhat } else { LayoutKind::ProbhatAlt };
            b2.layout = if a2.layout == LayoutKind::Probhat { LayoutKind::ProbhatAlt } else { LayoutKind::Probhat };
            (a2, b2)
        } else {
            (a, b)
        };
        // option flips that matter most: the switches that decide what is loaded / shown
        let b = if a.is_phonetic() && self.rng.pct(25) {
            let mut c = a;
            c.opts ^= PHON_SUG;
            if self.rng.pct(40) {
                c.opts ^= 1 << self.rng.below(11);
            }
            c.data = data;
            c
        } else {
            b
        };
        let mut ops = vec![Op::Spawn { h: 0, cfg: a }];
        let mut words: Vec<String> = (0..self.rng.range(1, 5)).map(|_| self.word().chars().take(12).collect()).collect();
        words.push(self.rng.pick(&self.env.autocorrect_words).clone());
        // user files that exist before the first context does: learned choices from an
        // earlier session (realistic values, probed), sometimes an auto-correct list
        let mut prelude = Prelude::default();
        if self.rng.pct(45) && data != DataKind::None {
            let mut probe: Option<Host> = None;
            let pcfg = CfgSpec { layout: LayoutKind::Phonetic, data, opts: PHON_SUG };
            let mut store = serde_json::Map::new();
            for _ in 0..self.rng.range(1, 3) {
                let w: String = self.rng.pick(&words).chars().filter(|c| c.is_ascii_alphabetic()).collect();
                if w.is_empty() {
                    continue;
                }
                let cands = self.probe_candidates(&mut probe, pcfg, &w);
                if cands.len() > 1 {
                    let c = cands[1 + self.rng.usize(cands.len() - 1)].clone();
                    store.insert(w, serde_json::Value::String(c));
                }
            }
            if !store.is_empty() {
                prelude.store = Some(serde_json::Value::Object(store).to_string());
            }
        }
        if self.rng.pct(15) {
            let w: String = self.rng.pick(&words).chars().filter(|c| c.is_ascii_alphabetic()).collect();
            if !w.is_empty() {
                prelude.autocorrect = Some(self.autocorrect_doc(&w));
            }
        }
        let la = self.env.layout(a.layout);
        let lb = self.env.layout(b.layout);
        let type_word = |g: &mut Gen, ops: &mut Vec<Op>, l: Option<&LayoutInfo>, w: &str| match l {
            None => g.type_text(ops, 0, w, Sel::Presel),
            Some(l) => {
                let n = g.rng.range(1, 7);
                for _ in 0..n {
                    ops.push(g.fixed_class_key(l, 4));
                }
            }
        };
        // pre-history P (fills the memo), ends idle
        let p = self.rng.range(0, 6);
        for _ in 0..p {
            let w = self.rng.pick(&words).clone();
            type_word(self, &mut ops, la, &w);
            let term = match self.rng.weighted(&[30, 30, 20, 20]) {
                0 => Op::Finish { h: 0 },
                1 => Op::Commit { h: 0, idx: Idx::Presel },
                2 => Op::Commit { h: 0, idx: self.learn_idx() },
                _ => Op::Bs { h: 0, ctrl: true },
            };
            ops.push(term);
        }
        ops.push(Op::Finish { h: 0 });
        // the editor, between P and the update
        let clock_faults = self.rng.pct(15);
        let edits = if a.is_phonetic() && b.is_phonetic() { self.rng.range(0, 2) } else { self.rng.range(0, 1) };
        let mut ac = serde_json::Map::new();
        for e in 0..edits {
            let w = self.rng.pick(&words).clone();
            let core: String = w.chars().filter(|c| c.is_ascii_alphabetic()).collect();
            if core.is_empty() { continue; }
            if self.rng.pct(75) || ac.is_empty() {
                let v = self.autocorrect_value();
                ac.insert(core, serde_json::Value::String(v));
            } else {
                let k = ac.keys().next().cloned().unwrap();
                ac.remove(&k);
            }
            ops.push(Op::Clock { dt: self.clock_step(5) });
            let mt = if clock_faults && e > 0 {
                match self.rng.weighted(&[40, 40, 20]) {
                    0 => Mt::Tie,
                    1 => Mt::Back(5_000_000_000),
                    _ => Mt::Ahead(self.rng.range(1, 200 * 365 * 86_400) * 1_000_000_000),
                }
            } else if clock_faults && self.rng.pct(15) {
                Mt::Ahead(self.rng.range(1, 200 * 365 * 86_400) * 1_000_000_000)
            } else {
                Mt::Now
            };
            ops.push(Op::SetFile { file: FileId::Autocorrect, st: FileSt::Text(serde_json::Value::Object(ac.clone()).to_string()), mt });
            if e + 1 < edits {
                // the context sees the intermediate version
                ops.push(Op::Update { h: 0, cfg: a });
                let w = self.rng.pick(&words).clone();
                type_word(self, &mut ops, la, &w);
                ops.push(Op::Finish { h: 0 });
            }
        }
        if clock_faults && self.rng.pct(30) {
            ops.push(Op::SetFile { file: FileId::Autocorrect, st: FileSt::Absent, mt: Mt::Now });
        }
        if self.rng.pct(25) {
            // a chain of updates: A -> M -> B (e.g. fixed -> phonetic(off) -> phonetic(on))
            let mut m = if self.rng.coin() { b } else { self.any_cfg(1, 1, 1) };
            m.data = data;
            if m.is_phonetic() && self.rng.coin() {
                m.opts ^= PHON_SUG;
            }
            ops.push(Op::Update { h: 0, cfg: m });
            if self.rng.coin() {
                let w = self.rng.pick(&words).clone();
                type_word(self, &mut ops, self.env.layout(m.layout), &w);
                ops.push(Op::Finish { h: 0 });
            }
            if self.rng.pct(55) {
                // the auto-correct list is edited while the intermediate configuration is
                // active (e.g. while a fixed layout is in use)
                let w = self.rng.pick(&words).clone();
                let core: String = w.chars().filter(|c| c.is_ascii_alphabetic()).collect();
                if !core.is_empty() {
                    let v = self.autocorrect_value();
                    ac.insert(core, serde_json::Value::String(v));
                    ops.push(Op::Clock { dt: self.clock_step(5) });
                    ops.push(Op::SetFile { file: FileId::Autocorrect, st: FileSt::Text(serde_json::Value::Object(ac.clone()).to_string()), mt: Mt::Now });
                }
            }
        }
        ops.push(Op::Update { h: 0, cfg: b });
        ops.push(Op::Fork { h: 0 });
        // continuation K in lock step
        let k = self.rng.range(1, 6);
        let mut cur_b = b;
        for step in 0..k {
            if step > 0 && self.rng.pct(20) {
                // a further update in the middle of the continuation, applied to the used
                // context and to the reference context alike (same layout: option flips,
                // most often the suggestion switch back)
                let mut c = cur_b;
                if c.is_phonetic() && self.rng.pct(60) {
                    c.opts ^= PHON_SUG;
                } else {
                    c.opts ^= 1 << self.rng.below(11);
                }
                ops.push(Op::Finish { h: 0 });
                ops.push(Op::Update { h: 0, cfg: c });
                cur_b = c;
            }
            let w = if self.rng.pct(70) { self.rng.pick(&words).clone() } else { self.word() };
            type_word(self, &mut ops, lb, &w);
            let term = match self.rng.weighted(&[35, 30, 20, 15]) {
                0 => Op::Finish { h: 0 },
                1 => Op::Commit { h: 0, idx: Idx::Presel },
                2 => Op::Commit { h: 0, idx: self.learn_idx() },
                _ => Op::Bs { h: 0, ctrl: true },
            };
            ops.push(term);
        }
        Plan { scenario: Scenario::Reconfigure, hash_seed: self.rng.next_u64(), prelude, ops }
    }

    // ------------------------------------------------------------------ C12 / C13

    fn gen_fixed_rules(&mut self, scenario: Scenario) -> Plan {
        let reph = scenario == Scenario::Reph;
        let mut cfg = self.fixed_cfg(if reph { 75 } else { 85 }, 0, 60, 40);
        if reph {
            if self.rng.pct(80) { cfg.opts |= OLD_REPH; }
            if self.rng.pct(75) { cfg.opts &= !KAR_ORDER; }
        } else {
            cfg.opts &= !KAR_ORDER;
        }
        if self.rng.pct(75) {
            cfg.opts &= !FIXED_SUG;
            cfg.data = DataKind::None;
        }
        let l = self.env.layout(cfg.layout).unwrap();
        let mut ops = vec![Op::Spawn { h: 0, cfg }];
        // the options in force are those of the last update_engine: in a third of the runs
        // the helpers are switched on and off between words of the live context
        let live_updates = self.rng.pct(35);
        let flippable: Vec<u16> = if reph {
            vec![OLD_REPH, OLD_REPH, OLD_REPH, VOWEL, CHANDRA, KAR, NUMPAD, KAR_ORDER, SMART_QUOTE, ENGLISH]
        } else {
            vec![VOWEL, CHANDRA, KAR, OLD_REPH, VOWEL, CHANDRA, KAR, NUMPAD, SMART_QUOTE, ENGLISH]
        };
        if reph && self.rng.pct(15) {
            // reph as the very first key
            if let Some(op) = self.fixed_key_for_value(l, fm::REPH) {
                ops.push(op);
            }
        }
        let n = self.rng.range(6, if self.tier == Tier::Quick { 60 } else { 120 });
        let mut since = 0;
        // reph scenario: most runs type orthographically well-formed syllables, so that the
        // placement clause (not only conservation) is judged on most presses
        let syllabic = reph && self.rng.pct(65);
        let cons: Vec<&str> = Self::values_of_class(l, |s| s.chars().count() == 1 && fm::is_consonant(s.chars().next().unwrap()));
        let kars: Vec<&str> = Self::values_of_class(l, |s| s.chars().count() == 1 && fm::is_mapped_kar(s.chars().next().unwrap()));
        let vows: Vec<&str> = Self::values_of_class(l, |s| s.chars().count() == 1 && fm::is_independent_vowel(s.chars().next().unwrap()));
        let puncts: Vec<&str> = Self::values_of_class(l, |s| s.chars().count() == 1 && matches!(s.chars().next().unwrap(), ',' | '-' | '(' | '?' | ')' | '!' | ';'));
        if syllabic && !cons.is_empty() && !kars.is_empty() {
            let mut i = 0;
            while i < n {
                i += 1;
                if since >= 22 {
                    ops.push(Op::Finish { h: 0 });
                    since = 0;
                    continue;
                }
                let mut vals: Vec<String> = Vec::new();
                match self.rng.weighted(&[70, 12, 10, 8]) {
                    0 => {
                        if self.rng.pct(6) && l.by_value.contains_key("\u{0995}\u{09CD}\u{09B7}") {
                            vals.push("\u{0995}\u{09CD}\u{09B7}".into());
                        } else {
                            vals.push(self.rng.pick(&cons).to_string());
                        }
                        // conjuncts of up to five or six consonants: rare in writing, but where
                        // scan bounds live
                        let joins = self.rng.weighted(&[45, 27, 14, 8, 4, 2]);
                        for _ in 0..joins {
                            if self.rng.pct(25) && l.by_value.contains_key("\u{09CD}\u{09B0}") {
                                vals.push("\u{09CD}\u{09B0}".into());
                            } else {
                                vals.push("\u{09CD}".into());
                                vals.push(self.rng.pick(&cons).to_string());
                            }
                        }
                        if self.rng.pct(55) {
                            vals.push(self.rng.pick(&kars).to_string());
                        }
                        if self.rng.pct(18) {
                            vals.push("\u{0981}".into());
                        }
                    }
                    1 if !vows.is_empty() => {
                        vals.push(self.rng.pick(&vows).to_string());
                        if self.rng.pct(15) {
                            vals.push("\u{0981}".into());
                        }
                    }
                    2 if !puncts.is_empty() => vals.push(self.rng.pick(&puncts).to_string()),
                    _ => {
                        // something outside the grammar now and then
                        ops.push(self.fixed_class_key(l, 0));
                        since += 1;
                    }
                }
                for v in vals {
                    if let Some(op) = self.fixed_key_for_value(l, &v) {
                        ops.push(op);
                        since += 1;
                    }
                }
                if self.rng.pct(45) {
                    if let Some(op) = self.fixed_key_for_value(l, fm::REPH) {
                        ops.push(op);
                        since += 2;
                    }
                }
                match self.rng.weighted(&[80, 10, 10]) {
                    0 => {}
                    1 => ops.push(Op::Bs { h: 0, ctrl: false }),
                    _ => {
                        let t = self.terminator(0, true);
                        ops.push(t);
                        since = 0;
                        if live_updates && self.rng.pct(60) {
                            self.live_option_flip(&mut cfg, &flippable);
                            ops.push(Op::Update { h: 0, cfg });
                            if self.rng.pct(35) {
                                // the key pressed last before the update is the first one after it
                                if let Some(k) = ops.iter().rev().find(|o| matches!(o, Op::Key { .. })).cloned() {
                                    ops.push(k);
                                    since += 1;
                                }
                            }
                        }
                    }
                }
            }
            return Plan { scenario, hash_seed: self.rng.next_u64(), prelude: Prelude::default(), ops };
        }
        for _ in 0..n {
            if since >= 24 {
                ops.push(Op::Finish { h: 0 });
                since = 0;
                continue;
            }
            match self.rng.weighted(&[80, 12, 4, 4]) {
                0 => {
                    ops.push(self.fixed_class_key(l, if reph { 14 } else { 5 }));
                    since += 1;
                }
                1 => ops.push(Op::Bs { h: 0, ctrl: false }),
                2 => {
                    let t = self.terminator(0, true);
                    ops.push(t);
                    since = 0;
                    if live_updates && self.rng.pct(60) {
                        self.live_option_flip(&mut cfg, &flippable);
                        ops.push(Op::Update { h: 0, cfg });
                        if self.rng.pct(35) {
                            // the key pressed last before the update is the first one after it
                            if let Some(k) = ops.iter().rev().find(|o| matches!(o, Op::Key { .. })).cloned() {
                                ops.push(k);
                                since += 1;
                            }
                        }
                    }
                }
                _ => {
                    // a key the layout gives no value: keypad, missing or empty entries
                    let names = ["VC_J_SHIFT", "VC_F", "VC_Y_SHIFT", "VC_KP_MULTIPLY", "VC_KP_SUBTRACT", "VC_KP_3", "VC_KP_ENTER"];
                    let n = *self.rng.pick(&names);
                    if let Some(k) = self.env.keys.keys.iter().find(|k| k.name == n) {
                        ops.push(Op::Key { h: 0, key: k.code, m: self.random_modifier(), sel: Sel::Raw(0) });
                    }
                }
            }
        }
        Plan { scenario, hash_seed: self.rng.next_u64(), prelude: Prelude::default(), ops }
    }

    // ------------------------------------------------------------------ C14

    fn gen_kar_order(&mut self) -> Plan {
        let mut base = self.fixed_cfg(80, 0, 50, 50);
        base.opts &= !(KAR_ORDER);
        if self.rng.pct(70) {
            base.opts &= !FIXED_SUG;
            base.data = DataKind::None;
        }
        let u_cfg = base;
        let t_cfg = base.with(KAR_ORDER, true);
        let l = self.env.layout(base.layout).unwrap();
        let mut ops = vec![Op::Spawn { h: 0, cfg: u_cfg }, Op::Spawn { h: 1, cfg: t_cfg }];
        let cons: Vec<&str> = Self::values_of_class(l, |s| s.chars().count() == 1 && fm::is_consonant(s.chars().next().unwrap()));
        let vowels: Vec<&str> = Self::values_of_class(l, |s| s.chars().count() == 1 && fm::is_independent_vowel(s.chars().next().unwrap()));
        let puncts: Vec<&str> = Self::values_of_class(l, |s| s.chars().count() == 1 && matches!(s.chars().next().unwrap(), ',' | '-' | '(' | '?' | ')' | '!'));
        let has = |v: &str| l.by_value.contains_key(v);
        let left_signs = ["\u{09BF}", "\u{09C7}", "\u{09C8}"];
        let right_signs = ["\u{09BE}", "\u{09C0}", "\u{09C1}", "\u{09C2}", "\u{09C3}"];
        let key = |g: &mut Gen, h: u8, v: &str| -> Option<Op> {
            g.fixed_key_for_value(l, v).map(|op| match op {
                Op::Key { key, m, sel, .. } => Op::Key { h, key, m, sel },
                o => o,
            })
        };
        let words = self.rng.range(1, 3);
        let live_updates = self.rng.pct(35);
        for wi in 0..words {
            if wi > 0 && live_updates && self.rng.pct(70) {
                // the other helpers are switched between two words, on both contexts alike
                // (update_engine while idle); the option under test stays as it is
                self.live_option_flip(&mut base, &[VOWEL, CHANDRA, KAR, OLD_REPH, NUMPAD, SMART_QUOTE, ENGLISH]);
                ops.push(Op::Update { h: 0, cfg: base });
                ops.push(Op::Update { h: 1, cfg: base.with(KAR_ORDER, true) });
            }
            // (now and then one composition of a hundred characters and more: limits on the
            // composition bite at different keys in the two orders if they count keys or bytes)
            let syllables = if self.rng.pct(2) { self.rng.range(30, 70) } else { self.rng.range(1, if self.tier == Tier::Quick { 5 } else { 6 }) };
            let mut abandoned = false;
            for si in 0..syllables {
                if self.rng.pct(if si > 0 { 5 } else { 3 }) {
                    // the word is abandoned while a sign is waiting in typewriter order: the
                    // sign key on T only (nothing is shown for it; as the first key of a word
                    // it waits over an empty text), then the word is ended on both sides by
                    // ctrl-backspace, a commit or a finish request; nothing of it may survive
                    // into the next word
                    let sgn = self.rng.pick(&left_signs).to_string();
                    if let Some(op) = key(self, 1, &sgn) {
                        ops.push(op);
                        ops.push(Op::Mark { tag: 2 });
                        match self.rng.weighted(&[40, 35, 25]) {
                            0 => { ops.push(Op::Bs { h: 0, ctrl: true }); ops.push(Op::Bs { h: 1, ctrl: true }); }
                            1 => { ops.push(Op::Commit { h: 0, idx: Idx::Rel(0) }); ops.push(Op::Commit { h: 1, idx: Idx::Rel(0) }); }
                            _ => { ops.push(Op::Finish { h: 0 }); ops.push(Op::Finish { h: 1 }); }
                        }
                        ops.push(Op::Mark { tag: 1 });
                        abandoned = true;
                        break;
                    }
                }
                let mut u: Vec<String> = Vec::new(); // Unicode order values
                let mut t: Vec<String> = Vec::new(); // typewriter order values
                let mut pending_probe = false;
                // where both sides have typed "first consonant + hasanta" of a conjunct whose
                // left-standing sign was typed first on T (it waits again after the hasanta)
                let mut sync: Option<(usize, usize)> = None;
                match self.rng.weighted(&[72, 14, 14]) {
                    0 => {
                        // consonant / conjunct, optional sign, optional chandrabindu
                        let mut cluster: Vec<String> = vec![self.rng.pick(&cons).to_string()];
                        let joins = self.rng.weighted(&[55, 30, 15]);
                        for _ in 0..joins {
                            match self.rng.weighted(&[50, 20, 15, 15]) {
                                0 => { cluster.push("\u{09CD}".into()); cluster.push(self.rng.pick(&cons).to_string()); }
                                1 if has("\u{09CD}\u{09B0}") => cluster.push("\u{09CD}\u{09B0}".into()),
                                2 if has(fm::ZOFOLA) => cluster.push(fm::ZOFOLA.into()),
                                3 if has("\u{09CD}\u{09AC}") => cluster.push("\u{09CD}\u{09AC}".into()),
                                _ => { cluster.push("\u{09CD}".into()); cluster.push(self.rng.pick(&cons).to_string()); }
                            }
                        }
                        if self.rng.pct(8) && has("\u{0995}\u{09CD}\u{09B7}") {
                            cluster = vec!["\u{0995}\u{09CD}\u{09B7}".into()];
                        }
                        let reph_on = base.has(OLD_REPH);
                        // (the reph key is outside the statement's syllable alphabet: it can
                        // leave a dangling hasanta, after which a sign legitimately behaves
                        // differently in the two orders)
                        let with_reph = false;
                        let sign = self.rng.weighted(&[25, 35, 20, 10, 10]);
                        let chandra = self.rng.pct(12);
                        // Unicode order
                        if with_reph && !reph_on { u.push(fm::REPH.into()); }
                        u.extend(cluster.iter().cloned());
                        // typewriter order
                        let mut t_pre: Vec<String> = Vec::new();
                        let mut t_post: Vec<String> = Vec::new();
                        match sign {
                            0 => {}
                            1 => {
                                let s = self.rng.pick(&left_signs).to_string();
                                u.push(s.clone());
                                t_pre.push(s);
                                pending_probe = self.rng.pct(25);
                            }
                            2 => {
                                let s = self.rng.pick(&right_signs).to_string();
                                u.push(s.clone());
                                t_post.push(s);
                            }
                            3 => {
                                u.push("\u{09CB}".into());
                                t_pre.push("\u{09C7}".into());
                                t_post.push("\u{09BE}".into());
                            }
                            _ => {
                                u.push("\u{09CC}".into());
                                t_pre.push("\u{09C7}".into());
                                t_post.push(if self.rng.coin() || !has("\u{09D7}") { "\u{09CC}".into() } else { "\u{09D7}".into() });
                            }
                        }
                        // in typewriter order the left-standing sign comes first, before a
                        // prefixed reph value too (it waits across the reph's hasanta)
                        if !t_pre.is_empty() && !with_reph && cluster.len() >= 3 && cluster[1] == "\u{09CD}" && self.rng.pct(60) {
                            sync = Some((2, t_pre.len() + 2));
                        }
                        t.extend(t_pre);
                        if with_reph && !reph_on { t.push(fm::REPH.into()); }
                        t.extend(cluster.iter().cloned());
                        t.extend(t_post);
                        if with_reph && reph_on { u.push(fm::REPH.into()); t.push(fm::REPH.into()); }
                        if chandra { u.push("\u{0981}".into()); t.push("\u{0981}".into()); }
                        else if self.rng.pct(14) {
                            // an independent vowel typed as hasanta + vowel sign right after the
                            // syllable (in both orders these two keys come last)
                            let k = self.rng.pick(&["\u{09BE}", "\u{09BF}", "\u{09C0}", "\u{09C1}", "\u{09C7}", "\u{09CB}"]).to_string();
                            u.push("\u{09CD}".into());
                            u.push(k.clone());
                            t.push("\u{09CD}".into());
                            t.push(k);
                        }
                    }
                    1 => {
                        let v = self.rng.pick(&vowels).to_string();
                        u.push(v.clone());
                        t.push(v);
                    }
                    _ => {
                        let p = self.rng.pick(&puncts).to_string();
                        u.push(p.clone());
                        t.push(p);
                    }
                }
                // emit: interleave the two hosts' keys at random (call granularity)
                let uo_all: Vec<Option<Op>> = u.iter().map(|v| key(self, 0, v)).collect();
                let to_all: Vec<Option<Op>> = t.iter().map(|v| key(self, 1, v)).collect();
                if uo_all.iter().chain(to_all.iter()).any(|o| o.is_none()) {
                    sync = None;
                }
                // a key without a character right after the sign that was typed first (it waits
                // over whatever is there): the sign must go on waiting
                let dead_key: Option<u16> = if !t.is_empty() && left_signs.contains(&t[0].as_str()) && self.rng.pct(5) {
                    self.env.keys.keys.iter().find(|k| k.name == "VC_KP_ENTER").map(|k| k.code)
                } else {
                    None
                };
                let (us, ts) = sync.unwrap_or((uo_all.len(), to_all.len()));
                let mut uo: Vec<Op> = Vec::new();
                let mut uo2: Vec<Op> = Vec::new();
                for (i, op) in uo_all.into_iter().enumerate() {
                    if let Some(op) = op {
                        if i < us { uo.push(op) } else { uo2.push(op) }
                    }
                }
                let mut to: Vec<Op> = Vec::new();
                let mut to2: Vec<Op> = Vec::new();
                for (i, op) in to_all.into_iter().enumerate() {
                    if let Some(op) = op {
                        if i == 0 && pending_probe {
                            to.push(op.clone());
                            to.push(Op::Mark { tag: 2 });
                            to.push(Op::Bs { h: 1, ctrl: false });
                            to.push(Op::Mark { tag: 3 });
                        }
                        if i < ts { to.push(op) } else { to2.push(op) }
                        if i == 0 {
                            if let Some(k) = dead_key {
                                to.push(Op::Key { h: 1, key: k, m: 0, sel: Sel::Raw(0) });
                            }
                        }
                    }
                }
                if let Some(k) = dead_key {
                    uo.insert(0, Op::Key { h: 0, key: k, m: 0, sel: Sel::Raw(0) });
                }
                if self.rng.coin() {
                    ops.append(&mut uo);
                    ops.append(&mut to);
                } else {
                    ops.append(&mut to);
                    ops.append(&mut uo);
                }
                if sync.is_some() {
                    ops.push(Op::Mark { tag: 4 });
                    if self.rng.coin() {
                        ops.append(&mut uo2);
                        ops.append(&mut to2);
                    } else {
                        ops.append(&mut to2);
                        ops.append(&mut uo2);
                    }
                }
                ops.push(Op::Mark { tag: 1 });
            }
            if abandoned {
                continue;
            }
            if self.rng.pct(25) {
                // the same backspaces on both sides at the end of the word: the texts are
                // equal, so is what is left (the word ends here: what is left may end in a
                // hasanta, after which a sign legitimately differs between the orders)
                for _ in 0..self.rng.range(1, 3) {
                    ops.push(Op::Bs { h: 0, ctrl: false });
                    ops.push(Op::Bs { h: 1, ctrl: false });
                    ops.push(Op::Mark { tag: 1 });
                }
            }
            match self.rng.weighted(&[40, 30, 30]) {
                0 => { ops.push(Op::Finish { h: 0 }); ops.push(Op::Finish { h: 1 }); }
                1 => { ops.push(Op::Commit { h: 0, idx: Idx::Rel(0) }); ops.push(Op::Commit { h: 1, idx: Idx::Rel(0) }); }
                _ => { ops.push(Op::Bs { h: 0, ctrl: true }); ops.push(Op::Bs { h: 1, ctrl: true }); }
            }
        }
        Plan { scenario: Scenario::KarOrderEquiv, hash_seed: self.rng.next_u64(), prelude: Prelude::default(), ops }
    }

    /// A fault-free base history for the C10 fault enumeration: a few learning commits
    /// with retypes in between. Returns the plan and the texts it learns.
    pub fn enum_base(&mut self) -> (Plan, Vec<String>) {
        let mut cfg = self.phonetic_cfg(3, 97, 0, 100);
        cfg.opts |= PHON_SUG;
        let mut ops = vec![Op::Spawn { h: 0, cfg }];
        let mut words: Vec<String> = Vec::new();
        let n = self.rng.range(1, 4);
        for _ in 0..n {
            let t = self.learn_text();
            self.type_and_refresh(&mut ops, 0, &t);
            ops.push(Op::Commit { h: 0, idx: self.learn_idx() });
            words.push(t);
            if self.rng.pct(30) {
                let w = self.rng.pick(&words).clone();
                self.type_and_refresh(&mut ops, 0, &w);
                ops.push(Op::Finish { h: 0 });
            }
            if self.rng.pct(20) {
                ops.push(Op::Clock { dt: 40_000_000_000 });
            }
        }
        (Plan { scenario: Scenario::UserfileFaults, hash_seed: self.rng.next_u64(), prelude: Prelude::default(), ops }, words)
    }

    pub fn plan(&mut self, scenario: Scenario) -> Plan {
        match scenario {
            Scenario::Crashfree | Scenario::Wellformed => self.gen_free_histories(scenario),
            Scenario::HistoryIndependence => self.gen_history_independence(),
            Scenario::SessionReset => self.gen_session_reset(),
            Scenario::LearnedDurability => self.gen_learned_durability(),
            Scenario::UserfileFaults => self.gen_userfile_faults(),
            Scenario::Reconfigure => self.gen_reconfigure(),
            Scenario::FixedRules | Scenario::Reph => self.gen_fixed_rules(scenario),
            Scenario::KarOrderEquiv => self.gen_kar_order(),
        }
    }
}
