//! Executable reference model of the fixed-layout composition helpers (C12), written
//! from the property text, and the old-style reph rule with its syllable grammar (C13).
//! All Bengali code points are written as escapes so that no editor can decompose them.

use crate::cfg::{CfgSpec, CHANDRA, KAR, OLD_REPH, VOWEL};

pub const HASANTA: char = '\u{09CD}';
pub const CHANDRABINDU: char = '\u{0981}';
pub const ZWJ: char = '\u{200D}';
pub const ZWNJ: char = '\u{200C}';
pub const RA: char = '\u{09B0}';
pub const AU_LENGTH_MARK: char = '\u{09D7}';
pub const AU: char = '\u{0994}';
pub const REPH: &str = "\u{09B0}\u{09CD}";
pub const ZOFOLA: &str = "\u{09CD}\u{09AF}";

pub const I_KAR: char = '\u{09BF}';
pub const E_KAR: char = '\u{09C7}';
pub const OI_KAR: char = '\u{09C8}';
pub const AA_KAR: char = '\u{09BE}';
pub const O_KAR: char = '\u{09CB}';
pub const OU_KAR: char = '\u{09CC}';

/// The ten vowel signs the rules map, with their independent vowels.
const KAR_TO_VOWEL: [(char, char); 10] = [
    ('\u{09BE}', '\u{0986}'), // aa
    ('\u{09BF}', '\u{0987}'), // i
    ('\u{09C0}', '\u{0988}'), // ii
    ('\u{09C1}', '\u{0989}'), // u
    ('\u{09C2}', '\u{098A}'), // uu
    ('\u{09C3}', '\u{098B}'), // rri
    ('\u{09C7}', '\u{098F}'), // e
    ('\u{09C8}', '\u{0990}'), // oi
    ('\u{09CB}', '\u{0993}'), // o
    ('\u{09CC}', '\u{0994}'), // ou
];

pub fn vowel_for_kar(c: char) -> Option<char> {
    KAR_TO_VOWEL.iter().find(|(k, _)| *k == c).map(|(_, v)| *v)
}

pub fn is_mapped_kar(c: char) -> bool {
    vowel_for_kar(c).is_some()
}

/// Any dependent vowel sign of the Bengali block (incl. the unmapped vocalic RR).
pub fn is_any_kar(c: char) -> bool {
    matches!(c, '\u{09BE}'..='\u{09C4}' | '\u{09C7}' | '\u{09C8}' | '\u{09CB}' | '\u{09CC}')
}

pub fn is_independent_vowel(c: char) -> bool {
    matches!(
        c,
        '\u{0985}'..='\u{098B}' | '\u{098F}' | '\u{0990}' | '\u{0993}' | '\u{0994}'
    )
}

pub fn is_consonant(c: char) -> bool {
    matches!(
        c,
        '\u{0995}'..='\u{09A8}'
            | '\u{09AA}'..='\u{09B0}'
            | '\u{09B2}'
            | '\u{09B6}'..='\u{09B9}'
            | '\u{09CE}'
            | '\u{09DC}'
            | '\u{09DD}'
            | '\u{09DF}'
    )
}

fn is_ligature_kar(c: char) -> bool {
    matches!(c, '\u{09C1}' | '\u{09C2}' | '\u{09C3}')
}

#[derive(Clone, Copy, PartialEq, Eq, Debug)]
enum PunctClass {
    /// Unambiguously punctuation for the auto-vowel rule.
    Sure,
    /// Characters on which "punctuation" can be read either way (apostrophe,
    /// ampersand, dari, digits, joiners, currency, anything else that is not a letter).
    Unclear,
    /// A Bengali letter or sign: not punctuation.
    No,
}

fn punct_class(c: char) -> PunctClass {
    if c.is_ascii_punctuation() {
        if c == '\'' || c == '&' {
            PunctClass::Unclear
        } else {
            PunctClass::Sure
        }
    } else if is_consonant(c)
        || is_independent_vowel(c)
        || is_any_kar(c)
        || c == HASANTA
        || c == CHANDRABINDU
        || c == '\u{0982}'
        || c == '\u{0983}'
        || c == AU_LENGTH_MARK
    {
        PunctClass::No
    } else {
        PunctClass::Unclear
    }
}

pub enum ModelStep {
    /// The statement determines the result.
    Determined(String),
    /// The statement is silent for this (state, key): adopt the implementation's text.
    Unspecified(&'static str),
    /// The statement leaves a choice but not a free one: the result must be one of these
    /// texts (the implementation's is adopted).
    OneOf(Vec<String>, &'static str),
    /// The reph key with old-style reph on: decided by the C13 rule.
    Reph,
}

/// The independent vowel that matches a vowel sign in Unicode, for the signs the engine's own
/// table leaves out (the statement says "the matching independent vowel": whatever a rule
/// makes of such a sign, it is not some other letter).
fn unicode_vowel_for_unmapped_kar(c: char) -> Option<char> {
    match c {
        '\u{09C4}' => Some('\u{09E0}'), // VOCALIC RR
        _ => None,
    }
}

/// A vowel sign for which the engine has no independent form meets a vowel-forming rule:
/// nothing composed, the sign appended as it is, or the rule applied with the vowel that
/// really matches the sign. `rule_applied` is the text before the vowel is pushed.
fn unmapped_kar_outcomes(text: &str, rule_applied: &str, kar: char) -> ModelStep {
    let mut v = vec![text.to_string(), format!("{}{}", text, kar)];
    if let Some(vowel) = unicode_vowel_for_unmapped_kar(kar) {
        v.push(format!("{}{}", rule_applied, vowel));
    }
    ModelStep::OneOf(v, "vowel sign without independent form")
}

/// One key value applied to `text` under `spec` (old vowel-sign order must be off).
pub fn apply_value(text: &str, value: &str, spec: &CfgSpec) -> ModelStep {
    let last = text.chars().last();
    let mut out = text.to_string();

    // 1. zo-fola after a bare RA gets a joiner in front.
    if value == ZOFOLA {
        if last == Some(RA) {
            let before = text.chars().rev().nth(1);
            if before != Some(HASANTA) {
                out.push(ZWJ);
            }
        }
        out.push_str(value);
        return ModelStep::Determined(out);
    }

    if value == REPH && spec.has(OLD_REPH) {
        return ModelStep::Reph;
    }

    let mut vchars = value.chars();
    let first = match vchars.next() {
        Some(c) => c,
        None => return ModelStep::Determined(out),
    };
    let single = vchars.next().is_none();

    if !single {
        // Multi-code-point values: the statement only speaks of plain appending, but
        // says nothing about a value that starts with a vowel sign, or with hasanta
        // right after a hasanta.
        if is_any_kar(first) {
            return ModelStep::Unspecified("multi-code-point value starting with a vowel sign");
        }
        if first == HASANTA && last == Some(HASANTA) {
            return ModelStep::Unspecified("multi-code-point value starting with hasanta after hasanta");
        }
        out.push_str(value);
        return ModelStep::Determined(out);
    }

    if is_any_kar(first) {
        let mapped = vowel_for_kar(first);
        // 2. automatic vowel forming
        if spec.has(VOWEL) {
            let trigger = match last {
                None => Some(true),
                Some(l) if is_independent_vowel(l) || is_mapped_kar(l) => Some(true),
                Some(l) if is_any_kar(l) => None, // unmapped sign: unclear
                Some(l) => match punct_class(l) {
                    PunctClass::Sure => Some(true),
                    PunctClass::No => Some(false),
                    PunctClass::Unclear => None,
                },
            };
            match trigger {
                None => return ModelStep::Unspecified("auto-vowel after a character of unclear class"),
                Some(true) => {
                    return match mapped {
                        Some(v) => {
                            out.push(v);
                            ModelStep::Determined(out)
                        }
                        None => unmapped_kar_outcomes(text, text, first),
                    }
                }
                Some(false) => {}
            }
        }
        // 3. automatic chandrabindu
        if spec.has(CHANDRA) && last == Some(CHANDRABINDU) {
            out.pop();
            out.push(first);
            out.push(CHANDRABINDU);
            return ModelStep::Determined(out);
        }
        // 4. vowel sign right after hasanta
        if last == Some(HASANTA) {
            return match mapped {
                Some(v) => {
                    out.pop();
                    out.push(v);
                    ModelStep::Determined(out)
                }
                None => {
                    out.pop();
                    unmapped_kar_outcomes(text, &out, first)
                }
            };
        }
        // 5. traditional joining
        if spec.has(KAR) && is_ligature_kar(first) {
            if let Some(l) = last {
                if is_consonant(l) {
                    out.push(ZWNJ);
                }
            }
        }
        out.push(first);
        return ModelStep::Determined(out);
    }

    // 4. second hasanta, AU length mark after hasanta
    if first == HASANTA && last == Some(HASANTA) {
        out.push(ZWNJ);
        return ModelStep::Determined(out);
    }
    if first == AU_LENGTH_MARK && last == Some(HASANTA) {
        out.pop();
        out.push(AU);
        return ModelStep::Determined(out);
    }

    out.push(first);
    ModelStep::Determined(out)
}

/// All positions `i` (byte offsets on char boundaries) with `q == p[..i] + ins + p[i..]`.
pub fn insertion_points(p: &str, q: &str, ins: &str) -> Vec<usize> {
    let mut v = Vec::new();
    if q.len() != p.len() + ins.len() {
        return v;
    }
    let mut idxs: Vec<usize> = p.char_indices().map(|(i, _)| i).collect();
    idxs.push(p.len());
    for i in idxs {
        if q.is_char_boundary(i)
            && q.is_char_boundary(i + ins.len())
            && q[..i] == p[..i]
            && q[i..i + ins.len()] == *ins
            && q[i + ins.len()..] == p[i..]
        {
            v.push(i);
        }
    }
    v
}

pub enum RephPlacement {
    /// Byte offset where the reph must be inserted.
    At(usize),
    /// The text is outside the syllable grammar (or is the one ambiguous shape): only
    /// conservation is judged.
    NotJudged(&'static str),
    /// The final syllable carries a two-part vowel sign typed as its two parts (E + AA, E + AU
    /// length mark: canonically one sign, two code points): the statement can be read both
    /// ways, so the start of the final conjunct and the end of the text are both accepted -
    /// but nothing in between (never between the two parts).
    Either(usize, usize),
}

/// Parses `p` with the grammar
/// `syllable* ; syllable = C (hasanta C)* [vowel sign] [chandrabindu] | V [chandrabindu] | punctuation | digit`
/// and returns where old-style reph belongs.
pub fn reph_placement(p: &str) -> RephPlacement {
    let cs: Vec<(usize, char)> = p.char_indices().collect();
    let n = cs.len();
    let mut i = 0;
    // (start byte offset, is consonant-cluster syllable, cluster has vowel sign)
    let mut last_syll: Option<(usize, bool, bool)> = None;
    let mut last_two_part = false;
    let mut prev_cluster_without_vowel = false;
    while i < n {
        let (off, c) = cs[i];
        if is_consonant(c) {
            let mut j = i + 1;
            while j + 1 < n && cs[j].1 == HASANTA && is_consonant(cs[j + 1].1) {
                j += 2;
            }
            let mut has_kar = false;
            let mut two_part = false;
            if j < n && is_mapped_kar(cs[j].1) {
                has_kar = true;
                j += 1;
                if cs[j - 1].1 == '\u{09C7}' && j < n && (cs[j].1 == '\u{09BE}' || cs[j].1 == '\u{09D7}') {
                    two_part = true;
                    j += 1;
                }
            }
            if j < n && cs[j].1 == CHANDRABINDU {
                j += 1;
            }
            last_syll = Some((off, true, has_kar));
            last_two_part = two_part;
            prev_cluster_without_vowel = !has_kar && cs[j - 1].1 != CHANDRABINDU;
            i = j;
        } else if is_independent_vowel(c) {
            if prev_cluster_without_vowel {
                // e.g. KA + I: "one vowel (sign)" can be read two ways here.
                return RephPlacement::NotJudged("independent vowel directly after a vowel-less cluster");
            }
            let mut j = i + 1;
            if j < n && cs[j].1 == CHANDRABINDU {
                j += 1;
            }
            last_syll = Some((off, false, false));
            last_two_part = false;
            prev_cluster_without_vowel = false;
            i = j;
        } else if c.is_ascii_punctuation()
            || c.is_ascii_digit()
            || ('\u{09E6}'..='\u{09EF}').contains(&c)
            || c == '\u{0964}'
            || c == '\u{0965}'
        {
            last_syll = Some((off, false, false));
            last_two_part = false;
            prev_cluster_without_vowel = false;
            i += 1;
        } else {
            return RephPlacement::NotJudged("text outside the syllable grammar");
        }
    }
    match last_syll {
        None => RephPlacement::At(0),
        Some((off, true, _)) if last_two_part => RephPlacement::Either(off, p.len()),
        Some((off, true, _)) => RephPlacement::At(off),
        Some((_, false, _)) => RephPlacement::At(p.len()),
    }
}
