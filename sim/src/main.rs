//! riti-sim: deterministic simulation with fault injection for OpenBangla/riti.
//!
//!   riti-sim run <C..> <quick|thorough> [--runs N] [--workers N] [--first I]
//!   riti-sim replay <file>
//!   riti-sim digests <C..> <quick|thorough> --runs N --workers N     (determinism selftest)
//!   riti-sim show <C..> <quick|thorough> <run index>                 (print one run's plan and log)
//!
//! Exit status: 0 = the property held on everything explored; 1 = violation (a line
//! `VIOLATION property=<id> replay=<path>` is printed); 2 = harness error.

mod cfg;
mod disk;
mod entropy;
mod enumerate;
mod env;
mod exec;
mod ffi;
mod ffi_run;
mod fixedmodel;
mod gen;
mod host;
mod keys;
mod learn;
mod panics;
mod plan;
mod prng;
mod runner;
mod stats;
mod watch;

use std::sync::Arc;
use std::time::Duration;

use crate::env::Env;
use crate::exec::{execute, End};
use crate::gen::{Gen, Tier};
use crate::plan::{Op, Replay, Scenario};
use crate::runner::*;
use crate::stats::Stats;

#[global_allocator]
static ALLOC: ffi::Counting = ffi::Counting;

fn die(msg: &str) -> ! {
    println!("HARNESS-ERROR: {}", msg);
    eprintln!("HARNESS-ERROR: {}", msg);
    std::process::exit(2);
}

fn arg_val(args: &[String], name: &str) -> Option<String> {
    args.iter().position(|a| a == name).and_then(|i| args.get(i + 1)).cloned()
}

fn parse_tier(s: &str) -> Tier {
    match s {
        "quick" => Tier::Quick,
        "thorough" => Tier::Thorough,
        _ => die(&format!("unknown tier {}", s)),
    }
}

fn default_runs(s: Scenario, t: Tier) -> u64 {
    // sized from measured throughput on 16 workers: quick 20-40 s, thorough 10-15 min
    match (s, t) {
        (Scenario::Crashfree, Tier::Quick) => 20000,
        (Scenario::Crashfree, Tier::Thorough) => 200000,
        (Scenario::Wellformed, Tier::Quick) => 20000,
        (Scenario::Wellformed, Tier::Thorough) => 180000,
        (Scenario::HistoryIndependence, Tier::Quick) => 16000,
        (Scenario::HistoryIndependence, Tier::Thorough) => 160000,
        (Scenario::SessionReset, Tier::Quick) => 60000,
        (Scenario::SessionReset, Tier::Thorough) => 800000,
        (Scenario::LearnedDurability, Tier::Quick) => 8000,
        (Scenario::LearnedDurability, Tier::Thorough) => 140000,
        (Scenario::UserfileFaults, Tier::Quick) => 8000, // sampled runs; plus 32 enumerated base histories
        (Scenario::UserfileFaults, Tier::Thorough) => 60000, // sampled runs; plus 1500 enumerated base histories
        (Scenario::Reconfigure, Tier::Quick) => 25000,
        (Scenario::Reconfigure, Tier::Thorough) => 350000,
        (Scenario::FixedRules, Tier::Quick) => 200000,
        (Scenario::FixedRules, Tier::Thorough) => 1000000,
        (Scenario::Reph, Tier::Quick) => 200000,
        (Scenario::Reph, Tier::Thorough) => 1000000,
        (Scenario::KarOrderEquiv, Tier::Quick) => 200000,
        (Scenario::KarOrderEquiv, Tier::Thorough) => 1000000,
    }
}

fn rule_for(s: Scenario) -> String {
    let common = "one PRNG stream per run (run_seed = mix(VERIF_SEED, property, run index)) decides the swarm configuration and every operation; a case is one executed history; a state is non-trivial when the returned suggestion is non-empty, and distinct by the hash given under distinct_states_measure";
    let specific = match s {
        Scenario::Crashfree => "histories of 30-200 calls over the 111 header key codes (any modifier, any selection byte), backspace, ctrl-backspace, commit(i<len), finish, update while idle, restart; 1-2 hosts; all 11 options, 3 layouts, 4 data profiles (BIG: lists of 300+ candidates with selection bytes 253-255); recipes (unusual learned entries, families of learned words, a learned text composed again around an option switch); the editor (documents whose entries may refer to one another; stamps now / tie / back / in the future) followed by a re-load and the word; a fault-injecting configuration in about an eighth of the learning runs (directory missing / read-only, single failing saves, damaged user files)",
        Scenario::Wellformed => "as C01 but every selection byte is valid for the previously returned list; biased to long lists followed by selection-preserving punctuation with a high selection",
        Scenario::HistoryIndependence => "a target text (also of one or two characters), a planted learned store held fixed (entries for prefixes and splits of the target, and what a learning commit of a wrapped text or an emoticon's emoji leaves behind), 2-4 executions reaching the text (straight, edit histories, warm memo also under other option settings brought to the compared configuration by update_engine, a warm word that begins like the target erased key by key, after restart) and an interleaved bystander context with another configuration and data profile; in about a third of the runs the user's auto-correct list is rewritten half-way or moved out of the directory and back with its old stamp and every context re-loads it while idle before the target is typed; the same history without the bystander, and (two thirds of the runs) with other keys for every hash map",
        Scenario::SessionReset => "history (now and then 18-48 keys, or a family of words: stem learned, stem + suffix ended, stem learned again), terminating event, in a fifth of the runs an option switch by update_engine, fork of a fresh reference context over a copy of the disk, continuation in lock step (also the history's word again, also further option switches on both); both methods; fault-injecting configuration (directory unwritable from the start, single failing saves) with the pair paused while a learned choice is unsaved",
        Scenario::LearnedDurability => "2-12 words typed, committed (other / preselected) or abandoned, retyped bare and with known suffixes, restarts at event boundaries; reference map of acknowledged choices (initialised from a store planted before the run: now and then 150-900 entries with a few for words typed again); the candidate list switched off for a word or two; in one run of twelve a second writer over the same directory, a list edit and a re-load (same-context clauses only)",
        Scenario::UserfileFaults => "1-2 hosts, the editor (entries may refer to one another; stamps now / tie / back / in the future; clock steps from 1 ns), the fault injector and the clock; faults armed right before the commit / restart / spawn / update they should bite; long outages (3-9 failing learning commits, then the directory back); swarm-selected fault kinds",
        Scenario::Reconfigure => "configuration A, pre-history, auto-correct edits stamped by the simulated clock (steps from 1 ns; the clock-fault configuration with tie / back / future stamps is informational), update to B (three fixed layouts, one a same-named copy in another directory), fork of a new context with B over a copy of the disk - only when the context was re-configured after the last change of the list -, continuation in lock step",
        Scenario::FixedRules => "key / backspace histories over the Synthetic (and Probhat) layout chosen by character class (including characters of 2, 3 and 4 bytes beyond the Bengali block and the nukta), 16 helper settings switched between words of the live context in a third of the runs, old vowel-sign order off; compared with the reference model after every operation",
        Scenario::Reph => "histories with the reph key pressed at random points (also first), options switched between words of the live context in a third of the runs; conservation on every press, placement where the text matches the syllable grammar",
        Scenario::KarOrderEquiv => "syllable sequences (now and then 30-70 syllables) typed in Unicode order into a context with the option off and in typewriter order into one with it on; composed text, first candidate and its pre-edit text compared after every syllable and in the middle of a conjunct; pending-sign probes; words ended while a sign waits; the other helpers switched between words on both contexts",
    };
    format!("{}; {}", specific, common)
}

fn assumptions_for(s: Scenario) -> Vec<String> {
    let mut v = vec![
        "seeded search, not proof: evidence about the histories, fault placements and seeds actually run".to_string(),
        "the Rust methods of RitiContext are driven under catch_unwind; the C wrappers are one-line shims over them (checked separately by C19)".to_string(),
        "SimDisk models std::fs::write as open(O_TRUNC) + write_all; error at open leaves the file untouched, error or crash afterwards leaves a prefix".to_string(),
    ];
    match s {
        Scenario::Crashfree => v.push("'no unbounded blow-up in time' is judged by two bounds per call, compositions capped (quick 40, thorough 100 keys): a deterministic one (bytes requested from the allocator by the call, 1 GiB; max_call_allocated_bytes is the largest seen) and 2 s of thread CPU time; a slow call is reported only if the worker sees it again twice at half the bound and three single-threaded re-executions of the minimised trace exceed a quarter of it".into()),
        Scenario::FixedRules => v.push("the reference model is partial where the statement is silent (counted under unspecified_steps, never a violation); a vowel sign without independent form that meets a vowel-forming rule may compose nothing, be appended, or become the vowel that matches it in Unicode, nothing else".into()),
        Scenario::HistoryIndependence => v.push("when the user's auto-correct list is rewritten during a run, only contexts that re-loaded it afterwards (idle update_engine, or created later) are compared; deleting the file is not used as an edit".into()),
        Scenario::Reph => v.push("placement is judged only for texts matching the syllable grammar; an independent vowel directly after a vowel-less cluster is not judged".into()),
        Scenario::UserfileFaults => v.push("mid-read EIO after a successful open is not injected; a torn store may lose more than one choice for a new context (inside the statement)".into()),
        Scenario::Reconfigure => v.push("clock faults (mtime tie / regress / file deleted) are reported as informational divergences, never as violations".into()),
        _ => {}
    }
    v
}

fn workers_default() -> usize {
    std::thread::available_parallelism().map(|n| n.get()).unwrap_or(8).min(16)
}

fn setup_process() {
    // Process environment is fixed before any riti object exists.
    std::env::set_var("XDG_DATA_HOME", disk::XDG);
    std::env::set_var("RUST_BACKTRACE", "0");
    entropy::install();
    panics::install_hook();
}

fn cmd_run(args: &[String]) -> i32 {
    let prop = args.get(0).cloned().unwrap_or_else(|| die("run: property id missing"));
    let scenario = Scenario::from_property(&prop).unwrap_or_else(|| die(&format!("no scenario for {}", prop)));
    let tier = parse_tier(args.get(1).map(|s| s.as_str()).unwrap_or("quick"));
    let verif_seed: u64 = std::env::var("VERIF_SEED").ok().and_then(|s| s.parse().ok()).unwrap_or(DEFAULT_SEED);
    let runs: u64 = arg_val(args, "--runs").and_then(|s| s.parse().ok()).unwrap_or_else(|| default_runs(scenario, tier));
    let workers: usize = arg_val(args, "--workers").and_then(|s| s.parse().ok()).unwrap_or_else(workers_default);
    let first: u64 = arg_val(args, "--first").and_then(|s| s.parse().ok()).unwrap_or(0);
    let wall_cap = Duration::from_secs(
        arg_val(args, "--wall-cap").and_then(|s| s.parse().ok()).unwrap_or(match tier {
            Tier::Quick => 240,
            Tier::Thorough => 2400,
        }),
    );
    let env = Arc::new(Env::load().unwrap_or_else(|e| die(&e)));
    let verif = env.paths.verif.clone();
    let known = Arc::new(KnownFindings::load(&format!("{}/known_findings.json", verif)).unwrap_or_else(|e| die(&e)));
    println!("riti-sim: property={} scenario={} tier={} VERIF_SEED={} runs={} workers={}", prop, scenario.name(), tier_name(tier), verif_seed, runs, workers);

    let tally = args.iter().any(|a| a == "--tally");
    let cfg = BatchCfg { scenario, tier, verif_seed, runs, workers, wall_cap, first_index: first, tally };

    // C10: seeded sampling first, then fault enumeration over a set of base histories
    let enum_bases: Option<u64> = if scenario == Scenario::UserfileFaults && !tally {
        Some(arg_val(args, "--bases").and_then(|s| s.parse().ok()).unwrap_or(match tier {
            Tier::Quick => 32,
            Tier::Thorough => 1500,
        }))
    } else {
        None
    };

    let res = run_batch(&env, &known, &cfg);
    if let Some(e) = &res.harness_error {
        die(e);
    }
    for (what, (n, detail)) in &res.known {
        println!("KNOWN-FINDING: property={} {} (hit {} times; e.g. {})", prop, what, n, detail);
    }

    // determinism: re-execute a sample single-threaded and compare digests (a few early
    // runs, which have few predecessors, and a few spread over the batch)
    let mut resampled = (0u64, 0u64);
    let mut first_mismatch: Option<u64> = None;
    if res.failure.is_none() {
        let step = (res.digests.len() / 8).max(1);
        let mut picks: Vec<(u64, u64)> = res.digests.iter().skip(24).step_by(29).take(12).cloned().collect();
        picks.extend(res.digests.iter().step_by(step).take(8).cloned());
        picks.sort();
        picks.dedup();
        for (i, d) in picks {
            let plan = Gen::new(&env, run_seed(verif_seed, scenario, i), tier).plan(scenario);
            let mut st = Stats::default();
            let (o, _) = execute(&env, &plan, &mut st, exec_opts(scenario, false));
            resampled.0 += 1;
            if o.digest != d {
                resampled.1 += 1;
                if first_mismatch.is_none() && i > 0 {
                    first_mismatch = Some(i);
                }
            }
        }
    }
    if resampled.1 > 0 {
        // harness nondeterminism, or riti contexts sharing state through the process?
        let victim = first_mismatch.unwrap_or(1);
        println!("{} of {} re-executed runs gave a different digest; deciding in fresh processes whether contexts share state (victim run {})", resampled.1, resampled.0, victim);
        match shared_state_search(&env, scenario, tier, verif_seed, victim) {
            Some(rep) if scenario == Scenario::HistoryIndependence => {
                let path = report_shared_state(&env, &rep);
                println!("violated clause: process-state-shared");
                println!("detail: {}", rep.detail);
                for (k, p) in rep.prefix_plans.iter().enumerate() {
                    println!("earlier history {} (other contexts, same process):", k);
                    for l in describe_plan(&env, p) {
                        println!("    {}", l);
                    }
                }
                println!("history whose outcome changes:");
                for l in describe_plan(&env, &rep.plan) {
                    println!("    {}", l);
                }
                let ex = EvidenceExtra { level: "exploration", rule: rule_for(scenario), assumptions: assumptions_for(scenario), extra: serde_json::json!({}) };
                let _ = write_evidence(&env, &verif, &cfg, &res, 1, resampled, &ex);
                println!("VIOLATION property={} replay={}", prop, path);
                return 1;
            }
            Some(rep) => die(&format!(
                "runs depend on what ran earlier in the process: riti contexts share state through the process ({}). That is a violation of C05 (./check C05 reports it with a replay), not of {}; this check cannot judge {} on such a tree",
                rep.detail, prop, prop
            )),
            None => die(&format!("determinism broken: {} of {} re-executed runs gave a different digest, and fresh processes do not attribute it to state shared between contexts", resampled.1, resampled.0)),
        }
    }

    if tally {
        println!("(tally mode: debugging aid, not a check)");
        return 2;
    }
    let mut exit = 0;
    let mut violations = 0;
    if let Some(f) = &res.failure {
        // confirm from the explicit op list, then minimise
        let mut st = Stats::default();
        let first_opts = if f.violation.clause == "time-bound" { exec_opts_slow(scenario, false, 1, 2) } else { exec_opts(scenario, false) };
        let (o, _) = execute(&env, &f.plan, &mut st, first_opts);
        let confirmed = match &o.end {
            End::Violation(v) => v.clause == f.violation.clause,
            _ => false,
        };
        if !confirmed && f.violation.clause != "time-bound" {
            die(&format!("run {} reported {:?} but its explicit op list did not reproduce it", f.index, f.violation.clause));
        }
        let mut report = confirmed;
        let m = if confirmed {
            minimise(&env, &f.plan, &f.violation, 3000, Duration::from_secs(120))
        } else {
            Minimised { plan: f.plan.clone(), violation: f.violation.clone(), executions: 0 }
        };
        if f.violation.clause == "time-bound" {
            // alarm-proof: three consecutive single-threaded confirmations
            let mut ok = 0;
            for _ in 0..3 {
                let mut st = Stats::default();
                let (o, _) = execute(&env, &m.plan, &mut st, exec_opts_slow(scenario, false, 1, 4));
                if matches!(&o.end, End::Violation(v) if v.clause == "time-bound") {
                    ok += 1;
                }
            }
            report = ok == 3;
            if !report {
                println!("note: a slow call in run {} was not confirmed three times; not reported", f.index);
            }
        }
        if report {
            violations = 1;
            let path = write_replay(&env, &verif, &cfg, f.index, f.plan.ops.len(), &m).unwrap_or_else(|e| die(&e));
            println!("violated clause: {}", m.violation.clause);
            println!("detail: {}", m.violation.detail);
            println!("minimised from {} to {} operations in {} executions:", f.plan.ops.len(), m.plan.ops.len(), m.executions);
            for l in describe_plan(&env, &m.plan) {
                println!("    {}", l);
            }
            println!("VIOLATION property={} replay={}", prop, path);
            exit = 1;
        }
    }
    if let (Some(bases), 0) = (enum_bases, exit) {
        if bases > 0 {
            let ecfg = BatchCfg { scenario, tier, verif_seed, runs: bases, workers, wall_cap, first_index: 0, tally: false };
            return enumerate::run_enumeration(&env, &known, &ecfg, Some(res), resampled);
        }
    }
    let ex = EvidenceExtra {
        level: if scenario == Scenario::UserfileFaults { "fault_enumeration" } else { "exploration" },
        rule: rule_for(scenario),
        assumptions: assumptions_for(scenario),
        extra: serde_json::json!({}),
    };
    let path = write_evidence(&env, &verif, &cfg, &res, violations, resampled, &ex).unwrap_or_else(|e| die(&e));
    println!(
        "{}: runs={} ops={} evaluations={} distinct_states={} interleavings={} inconclusive={} wall={:.1}s evidence={}",
        prop, res.completed_runs, res.stats.ops, res.stats.evaluations, res.stats.states.len(), res.stats.interleavings.len(),
        res.stats.get("inconclusive_runs"), res.wall.as_secs_f64(), path
    );
    if exit == 0 {
        println!("OK property={} held on everything explored", prop);
    }
    exit
}

/// `run` is a thin parent: the batch itself runs in a child (`run-inner`) so that a call
/// that never returns, or one that kills the process, becomes a reported violation.
fn cmd_run_parent(args: &[String]) -> i32 {
    let mut child_args = vec!["run-inner".to_string()];
    child_args.extend(args.iter().cloned());
    // A suspicion that no fresh process reproduces (a call that "did not return" for 60 s of
    // wall-clock time on a machine that was stalled or heavily oversubscribed) does not decide
    // anything: the batch is executed once more before it counts as a harness error.
    for attempt in 0..2 {
        let (end, out) = watch::run_child(&child_args, Duration::from_secs(6 * 3600), true);
        match end {
            watch::ChildEnd::Exit(c) if c == 0 || c == 1 || c == 2 => return c,
            other => match handle_suspect(args, other, &out) {
                Ok(code) => return code,
                Err(msg) if attempt == 0 => {
                    println!("note: {}; the batch is executed once more", msg);
                }
                Err(msg) => die(&msg),
            },
        }
    }
    2
}

fn classify_child(end: &watch::ChildEnd) -> Option<&'static str> {
    match end {
        watch::ChildEnd::Exit(0) => None,
        watch::ChildEnd::TimedOut => Some("no-return"),
        watch::ChildEnd::Signal(_) => Some("process-killed"),
        watch::ChildEnd::Exit(c) if *c == watch::EXIT_SUSPECT => Some("process-killed"),
        watch::ChildEnd::Exit(1) => Some("ordinary-violation"),
        watch::ChildEnd::Exit(_) => Some("harness"),
    }
}

/// Executes a plan in a fresh child with a time limit; how it ends is the verdict.
fn judge_plan_in_child(dir: &str, tag: &str, rep: &Replay, limit: Duration) -> (Option<&'static str>, String) {
    let path = format!("{}/suspect-{}-{}.json", dir, std::process::id(), tag);
    std::fs::write(&path, serde_json::to_vec(rep).unwrap()).unwrap_or_else(|e| die(&format!("{}: {}", path, e)));
    let (end, out) = watch::run_child(&["replay-inner".to_string(), path.clone(), "--quiet".to_string()], limit, false);
    let _ = std::fs::remove_file(&path);
    (classify_child(&end), out)
}

fn handle_suspect(args: &[String], end: watch::ChildEnd, out: &str) -> Result<i32, String> {
    let (kind, runs, line) = match watch::parse_suspect(out) {
        Some(x) => x,
        None => die(&format!("the simulator child ended with {:?} and left no breadcrumb", end)),
    };
    let prop = args.get(0).cloned().unwrap_or_default();
    let scenario = Scenario::from_property(&prop).unwrap_or_else(|| die("unknown property"));
    let tier = parse_tier(args.get(1).map(|s| s.as_str()).unwrap_or("quick"));
    let verif_seed: u64 = std::env::var("VERIF_SEED").ok().and_then(|s| s.parse().ok()).unwrap_or(DEFAULT_SEED);
    let env = Env::load().unwrap_or_else(|e| die(&e));
    let dir = format!("{}/.cache", env.paths.verif);
    println!("the simulator child reported: {}", line.trim());
    let mut runs = runs;
    runs.sort();
    let mk = |index: u64, plan: &plan::Plan, clause: &str, detail: &str, orig: usize, execs: u64, op: usize| Replay {
        property: prop.clone(),
        scenario: scenario.name().to_string(),
        clause: clause.to_string(),
        detail: detail.to_string(),
        verif_seed,
        run_index: index,
        run_seed: run_seed(verif_seed, scenario, index),
        tier: tier_name(tier).to_string(),
        original_ops: orig,
        minimised_ops: plan.ops.len(),
        minimiser_executions: execs,
        failing_op_index: op,
        plan: plan.clone(),
        prefix_plans: Vec::new(),
    };
    for index in runs {
        let plan = Gen::new(&env, run_seed(verif_seed, scenario, index), tier).plan(scenario);
        let rep = mk(index, &plan, "pending", "", plan.ops.len(), 0, 0);
        let (verdict, _) = judge_plan_in_child(&dir, "c", &rep, Duration::from_secs(15));
        let class = match verdict {
            Some(c) if c == "no-return" || c == "process-killed" => c,
            _ => continue,
        };
        println!("run {} confirmed in a fresh process: {} ({} suspected)", index, class, kind);
        // minimise by child executions (every failing candidate costs its time limit)
        let mut best = plan.clone();
        let mut execs = 0u64;
        let limit = Duration::from_secs(4);
        let fails = |p: &plan::Plan, execs: &mut u64| -> bool {
            *execs += 1;
            let r = mk(index, p, "pending", "", plan.ops.len(), 0, 0);
            judge_plan_in_child(&dir, "m", &r, limit).0 == Some(class)
        };
        // cut after the first op that does not return: grow a prefix by halving
        let mut lo = 1usize;
        let mut hi = best.ops.len();
        while lo < hi && execs < 14 {
            let mid = (lo + hi) / 2;
            let mut p = best.clone();
            p.ops.truncate(mid);
            if fails(&p, &mut execs) {
                hi = mid;
            } else {
                lo = mid + 1;
            }
        }
        best.ops.truncate(hi);
        let mut chunk = (best.ops.len() / 2).max(1);
        'dd: loop {
            let mut removed = false;
            let mut i = 0;
            while i < best.ops.len() {
                if execs >= 70 {
                    break 'dd;
                }
                let e = (i + chunk).min(best.ops.len());
                if e - i >= best.ops.len() {
                    i += chunk;
                    continue;
                }
                let mut p = best.clone();
                p.ops.drain(i..e);
                if fails(&p, &mut execs) {
                    best = p;
                    removed = true;
                } else {
                    i += chunk;
                }
            }
            if chunk == 1 {
                if !removed {
                    break;
                }
            } else {
                chunk = (chunk / 2).max(1);
            }
        }
        let detail = if class == "no-return" {
            format!("the last call of this history does not return (killed after {} s in a fresh process)", limit.as_secs())
        } else {
            "the last call of this history kills the process (stack overflow / abort); catch_unwind cannot see it".to_string()
        };
        let m = Minimised {
            plan: best.clone(),
            violation: exec::Violation { clause: class.to_string(), detail: detail.clone(), op_index: best.ops.len().saturating_sub(1) },
            executions: execs,
        };
        let cfg = BatchCfg { scenario, tier, verif_seed, runs: 0, workers: 0, wall_cap: Duration::from_secs(0), first_index: 0, tally: false };
        let path = write_replay(&env, &env.paths.verif, &cfg, index, plan.ops.len(), &m).unwrap_or_else(|e| die(&e));
        println!("violated clause: {}", class);
        println!("detail: {}", detail);
        println!("minimised from {} to {} operations in {} child executions:", plan.ops.len(), best.ops.len(), execs);
        for l in describe_plan(&env, &best) {
            println!("    {}", l);
        }
        // what the dead child had covered, from its breadcrumb line
        let num = |k: &str| -> u64 { line.split(k).nth(1).and_then(|s| s.split_whitespace().next()).and_then(|s| s.parse().ok()).unwrap_or(0) };
        let ev = serde_json::json!({
            "property_id": prop, "tier": tier_name(tier), "seed": verif_seed, "level": if scenario == Scenario::UserfileFaults { "fault_enumeration" } else { "exploration" },
            "coverage": {
                "evaluations": num("evals_done=").max(1),
                "distinct_nontrivial": num("states_sum_over_workers=").max(2),
                "rule": format!("{} -- this run ended early: a call did not return or killed the child process; counts are the child's breadcrumbs (distinct states summed over workers, may double count)", rule_for(scenario)),
                "samples": [describe_plan(&env, &best)],
                "runs": num("runs_done="), "ops_executed": num("ops_done="),
            },
            "assumptions": assumptions_for(scenario), "wall_s": 0.0, "violations": 1
        });
        let epath = format!("{}/evidence/{}.json", env.paths.verif, prop);
        let _ = std::fs::write(&epath, serde_json::to_string_pretty(&ev).unwrap());
        println!("VIOLATION property={} replay={}", prop, path);
        return Ok(1);
    }
    Err(format!("the simulator child ended with {:?} ({}), but none of the suspected runs reproduces it in a fresh process", end, line.trim()))
}

/// `seq-digest <file> [--alone]`: executes the file's prefix plans (unless --alone) and then
/// its plan, sequentially in this fresh process, and prints the digest of the last one.
fn cmd_seq_digest(args: &[String]) -> i32 {
    let path = args.get(0).cloned().unwrap_or_else(|| die("seq-digest: file missing"));
    let alone = args.iter().any(|a| a == "--alone");
    let text = std::fs::read_to_string(&path).unwrap_or_else(|e| die(&format!("{}: {}", path, e)));
    let rep: Replay = serde_json::from_str(&text).unwrap_or_else(|e| die(&format!("{}: {}", path, e)));
    let env = Env::load().unwrap_or_else(|e| die(&e));
    if !alone {
        for p in &rep.prefix_plans {
            let mut st = Stats::default();
            let _ = execute(&env, p, &mut st, exec_opts(p.scenario, false));
        }
    }
    let mut st = Stats::default();
    let (o, _) = execute(&env, &rep.plan, &mut st, exec_opts(rep.plan.scenario, false));
    println!("DIGEST {:016x} {}", o.obs_digest, match o.end { End::Ok => "ok", End::Violation(_) => "violation", End::Inconclusive(_) => "inconclusive", End::Harness(_) => "harness" });
    0
}

fn child_digest(dir: &str, rep: &Replay, alone: bool) -> Option<String> {
    let path = format!("{}/seq-{}-{}.json", dir, std::process::id(), if alone { "a" } else { "p" });
    std::fs::write(&path, serde_json::to_vec(rep).unwrap()).ok()?;
    let mut args = vec!["seq-digest".to_string(), path.clone()];
    if alone {
        args.push("--alone".into());
    }
    let (end, out) = watch::run_child(&args, Duration::from_secs(600), false);
    let _ = std::fs::remove_file(&path);
    if end != watch::ChildEnd::Exit(0) {
        return None;
    }
    out.lines().find(|l| l.starts_with("DIGEST ")).map(|l| l.to_string())
}

/// A run whose digest depends on what ran earlier in the process: either the harness is
/// not deterministic, or riti contexts share state through the process (a static, a
/// thread-local). The second is exactly what C05 forbids ("while other contexts are being
/// used in the same process"). Decided with fresh child processes: the victim alone vs the
/// victim after earlier histories; the set of earlier histories is minimised.
fn shared_state_search(env: &Env, scenario: Scenario, tier: Tier, verif_seed: u64, victim: u64) -> Option<Replay> {
    let dir = format!("{}/.cache", env.paths.verif);
    let plan_of = |i: u64| Gen::new(env, run_seed(verif_seed, scenario, i), tier).plan(scenario);
    let vplan = plan_of(victim);
    let mk = |prefix: Vec<plan::Plan>, plan: &plan::Plan| Replay {
        property: scenario.property().to_string(),
        scenario: scenario.name().to_string(),
        clause: "process-state-shared".into(),
        detail: String::new(),
        verif_seed,
        run_index: victim,
        run_seed: run_seed(verif_seed, scenario, victim),
        tier: tier_name(tier).to_string(),
        original_ops: plan.ops.len(),
        minimised_ops: plan.ops.len(),
        minimiser_executions: 0,
        failing_op_index: 0,
        plan: plan.clone(),
        prefix_plans: prefix,
    };
    let alone = child_digest(&dir, &mk(vec![], &vplan), true)?;
    // twice alone must agree, otherwise it is the harness that is not deterministic
    if child_digest(&dir, &mk(vec![], &vplan), true)? != alone {
        return None;
    }
    let mut prefix: Vec<u64> = (0..victim).collect();
    let differs = |idx: &[u64]| -> bool {
        let plans: Vec<plan::Plan> = idx.iter().map(|i| plan_of(*i)).collect();
        matches!(child_digest(&dir, &mk(plans, &vplan), false), Some(d) if d != alone)
    };
    if prefix.is_empty() || !differs(&prefix) {
        return None;
    }
    // ddmin over the set of earlier histories
    let mut chunk = (prefix.len() / 2).max(1);
    let mut execs = 0;
    loop {
        let mut removed = false;
        let mut i = 0;
        while i < prefix.len() && execs < 80 {
            let e = (i + chunk).min(prefix.len());
            if e - i >= prefix.len() {
                i += chunk;
                continue;
            }
            let mut cand = prefix.clone();
            cand.drain(i..e);
            execs += 1;
            if differs(&cand) {
                prefix = cand;
                removed = true;
            } else {
                i += chunk;
            }
        }
        if execs >= 80 {
            break;
        }
        if chunk == 1 {
            if !removed {
                break;
            }
        } else {
            chunk = (chunk / 2).max(1);
        }
    }
    // shrink the one remaining poisoning history and the victim, op by chunk
    let mut pplans: Vec<plan::Plan> = prefix.iter().map(|i| plan_of(*i)).collect();
    let mut v = vplan.clone();
    let still = |pp: &Vec<plan::Plan>, v: &plan::Plan| -> bool {
        let a = child_digest(&dir, &mk(vec![], v), true);
        let b = child_digest(&dir, &mk(pp.clone(), v), false);
        matches!((a, b), (Some(a), Some(b)) if a != b && a.ends_with("ok") && b.ends_with("ok"))
    };
    let mut budget = 60;
    for which in 0..=pplans.len() {
        let len = if which < pplans.len() { pplans[which].ops.len() } else { v.ops.len() };
        let mut chunk = (len / 2).max(1);
        loop {
            let mut removed = false;
            let mut i = 0;
            loop {
                let cur_len = if which < pplans.len() { pplans[which].ops.len() } else { v.ops.len() };
                if i >= cur_len || budget == 0 {
                    break;
                }
                let e = (i + chunk).min(cur_len);
                // never remove the first op (the spawn) of a history
                if i == 0 && e >= cur_len || i == 0 {
                    i += 1.max(chunk.min(1));
                    continue;
                }
                let mut pp = pplans.clone();
                let mut vv = v.clone();
                if which < pp.len() {
                    pp[which].ops.drain(i..e);
                } else {
                    vv.ops.drain(i..e);
                }
                budget -= 1;
                if still(&pp, &vv) {
                    pplans = pp;
                    v = vv;
                    removed = true;
                } else {
                    i += chunk;
                }
            }
            if budget == 0 {
                break;
            }
            if chunk == 1 {
                if !removed {
                    break;
                }
            } else {
                chunk = (chunk / 2).max(1);
            }
        }
    }
    let mut rep = mk(pplans, &v);
    rep.original_ops = vplan.ops.len();
    rep.minimised_ops = v.ops.len();
    rep.detail = format!(
        "the history of run {} shows something else when {} other histor{} (on other contexts) ran earlier in the same process than when it runs alone in a fresh process: contexts share state through the process",
        victim,
        rep.prefix_plans.len(),
        if rep.prefix_plans.len() == 1 { "y" } else { "ies" }
    );
    Some(rep)
}

fn report_shared_state(env: &Env, rep: &Replay) -> String {
    let dir = format!("{}/replays/{}", env.paths.verif, rep.property);
    let _ = std::fs::create_dir_all(&dir);
    let mut v = serde_json::to_value(rep).unwrap();
    v["readable_prefix_ops"] = serde_json::json!(rep.prefix_plans.iter().map(|p| describe_plan(env, p)).collect::<Vec<_>>());
    v["readable_ops"] = serde_json::json!(describe_plan(env, &rep.plan));
    let text = serde_json::to_string_pretty(&v).unwrap();
    let path = format!("{}/{}-{}-shared-{:08x}.json", dir, rep.verif_seed, rep.run_index, prng::fnv(text.as_bytes()) as u32);
    std::fs::write(&path, text).unwrap_or_else(|e| die(&format!("{}: {}", path, e)));
    path
}

/// `replay` runs the recorded history in a child too: it may not return.
fn cmd_replay_parent(args: &[String]) -> i32 {
    let path = args.get(0).cloned().unwrap_or_else(|| die("replay: file missing"));
    let text = std::fs::read_to_string(&path).unwrap_or_else(|e| die(&format!("{}: {}", path, e)));
    if text.contains("\"ffi_lifecycle\"") {
        return cmd_replay(args);
    }
    if let Ok(rep) = serde_json::from_str::<Replay>(&text) {
        if rep.clause == "process-state-shared" {
            let env = Env::load().unwrap_or_else(|e| die(&e));
            let dir = format!("{}/.cache", env.paths.verif);
            let a = child_digest(&dir, &rep, true);
            let b = child_digest(&dir, &rep, false);
            println!("alone in a fresh process:            {:?}", a);
            println!("after the recorded earlier histories: {:?}", b);
            return match (a, b) {
                (Some(a), Some(b)) if a != b => {
                    println!("clause: process-state-shared");
                    println!("REPRODUCED (same clause as recorded: process-state-shared)");
                    println!("VIOLATION property={} replay={}", rep.property, path);
                    1
                }
                (Some(_), Some(_)) => {
                    println!("NOT REPRODUCED (the history shows the same in both processes)");
                    0
                }
                _ => 2,
            };
        }
    }
    let recorded = serde_json::from_str::<Replay>(&text).map(|r| (r.clause, r.property)).unwrap_or_default();
    let (end, _) = watch::run_child(&["replay-inner".to_string(), path.clone()], Duration::from_secs(30), true);
    match classify_child(&end) {
        None => 0,
        Some("ordinary-violation") => 1,
        Some("harness") => 2,
        Some(class) => {
            println!("clause: {}", class);
            println!("the recorded history {} in a fresh process", if class == "no-return" { "does not return (killed after 30 s)" } else { "kills the process" });
            if class == recorded.0 {
                println!("REPRODUCED (same clause as recorded: {})", recorded.0);
            } else {
                println!("REPRODUCED A DIFFERENT CLAUSE (recorded: {})", recorded.0);
            }
            println!("VIOLATION property={} replay={}", recorded.1, path);
            1
        }
    }
}

fn cmd_replay(args: &[String]) -> i32 {
    let path = args.get(0).cloned().unwrap_or_else(|| die("replay: file missing"));
    let text = std::fs::read_to_string(&path).unwrap_or_else(|e| die(&format!("{}: {}", path, e)));
    let env = Env::load().unwrap_or_else(|e| die(&e));
    if text.contains("\"ffi_lifecycle\"") {
        let rep: ffi::FReplay = serde_json::from_str(&text).unwrap_or_else(|e| die(&format!("{}: {}", path, e)));
        return ffi_run::cmd_replay(&env, &path, &rep);
    }
    let rep: Replay = serde_json::from_str(&text).unwrap_or_else(|e| die(&format!("{}: {}", path, e)));
    let quiet = args.iter().any(|a| a == "--quiet");
    let mut st = Stats::default();
    watch::set_worker(0);
    watch::begin_run(rep.run_index);
    let opts = if rep.clause == "time-bound" { exec_opts_slow(rep.plan.scenario, !quiet, 1, 4) } else { exec_opts(rep.plan.scenario, !quiet) };
    let (o, log) = execute(&env, &rep.plan, &mut st, opts);
    for l in &log {
        println!("{}", l);
    }
    match o.end {
        End::Violation(v) => {
            println!("clause: {}", v.clause);
            println!("detail: {}", v.detail);
            if v.clause == rep.clause {
                println!("REPRODUCED (same clause as recorded: {})", rep.clause);
            } else {
                println!("REPRODUCED A DIFFERENT CLAUSE (recorded: {})", rep.clause);
            }
            println!("VIOLATION property={} replay={}", rep.property, path);
            1
        }
        End::Harness(e) => die(&e),
        End::Inconclusive(why) => {
            println!("NOT REPRODUCED (run inconclusive: {})", why);
            0
        }
        End::Ok => {
            println!("NOT REPRODUCED (the recorded history now satisfies the property)");
            0
        }
    }
}

fn cmd_digests(args: &[String]) -> i32 {
    let prop = args.get(0).cloned().unwrap_or_else(|| die("digests: property id missing"));
    let scenario = Scenario::from_property(&prop).unwrap_or_else(|| die("unknown property"));
    let tier = parse_tier(args.get(1).map(|s| s.as_str()).unwrap_or("quick"));
    let verif_seed: u64 = std::env::var("VERIF_SEED").ok().and_then(|s| s.parse().ok()).unwrap_or(DEFAULT_SEED);
    let runs: u64 = arg_val(args, "--runs").and_then(|s| s.parse().ok()).unwrap_or(500);
    let workers: usize = arg_val(args, "--workers").and_then(|s| s.parse().ok()).unwrap_or(16);
    let env = Arc::new(Env::load().unwrap_or_else(|e| die(&e)));
    let known = Arc::new(KnownFindings::default());
    let cfg = BatchCfg { scenario, tier, verif_seed, runs, workers, wall_cap: Duration::from_secs(3600), first_index: 0, tally: false };
    // never stop early: digests of all runs are wanted
    let mut all = Vec::new();
    let mut first = 0;
    while first < runs {
        let c = BatchCfg { first_index: first, runs: runs - first, ..BatchCfg { scenario, tier, verif_seed, runs, workers, wall_cap: Duration::from_secs(3600), first_index: 0, tally: false } };
        let res = run_batch(&env, &known, &c);
        if let Some(e) = res.harness_error {
            die(&e);
        }
        let next = match &res.failure {
            Some(f) => f.index + 1,
            None => runs,
        };
        for (i, d) in res.digests {
            if i < next {
                all.push((i, d));
            }
        }
        first = next;
    }
    let _ = cfg;
    all.sort();
    all.dedup();
    for (i, d) in all {
        println!("{} {} {:016x}", prop, i, d);
    }
    0
}

/// The stub must not misrepresent the code: fault-free runs of the disk-centred scenarios
/// are executed twice, once on SimDisk and once with no SimFs installed over real
/// directories (mtimes set explicitly to the simulated clock's values); observations and
/// the final parsed store must be identical.
fn cmd_fsmodel(args: &[String]) -> i32 {
    let runs: u64 = arg_val(args, "--runs").and_then(|s| s.parse().ok()).unwrap_or(300);
    let env = Env::load().unwrap_or_else(|e| die(&e));
    let base = format!("{}/.cache/fsmodel-{}", env.paths.verif, std::process::id());
    let _ = std::fs::remove_dir_all(&base);
    std::fs::create_dir_all(&base).unwrap_or_else(|e| die(&format!("{}: {}", base, e)));
    let mut rc = 0;
    for scenario in [Scenario::LearnedDurability, Scenario::Reconfigure, Scenario::SessionReset, Scenario::HistoryIndependence] {
        let mut compared = 0;
        let mut mismatches = 0;
        let mut saves = 0u64;
        for i in 0..runs {
            let plan = Gen::new(&env, run_seed(DEFAULT_SEED, scenario, i), Tier::Quick).plan(scenario);
            // fault-free runs only: an armed write fault or a directory that is taken away has
            // no counterpart on the real file system of this selftest
            if plan.ops.iter().any(|o| matches!(o, Op::SetDir { .. } | Op::Arm { .. } | Op::Heal | Op::DenyOpen { .. } | Op::PowerLoss)) {
                continue;
            }
            let mut st = Stats::default();
            let (a, _) = execute(&env, &plan, &mut st, exec_opts(scenario, false));
            saves += st.get("save.complete");
            let mut st2 = Stats::default();
            let mut o = exec_opts(scenario, false);
            o.mirror_base = Some(base.clone());
            let (b, _) = execute(&env, &plan, &mut st2, o);
            std::env::set_var("XDG_DATA_HOME", disk::XDG);
            compared += 1;
            let same_end = std::mem::discriminant(&a.end) == std::mem::discriminant(&b.end);
            if a.obs_digest != b.obs_digest || a.final_store != b.final_store || !same_end {
                mismatches += 1;
                println!("fsmodel {} run {}: SimDisk and the real file system disagree (end {:?} vs {:?}, store {:?} vs {:?})", scenario.property(), i, a.end, b.end, a.final_store, b.final_store);
            }
        }
        println!("fsmodel {}: {} fault-free runs on SimDisk and on the real file system, {} saves, {} mismatches", scenario.property(), compared, saves, mismatches);
        if mismatches > 0 {
            rc = 2;
        }
    }
    let _ = std::fs::remove_dir_all(&base);
    rc
}

/// Reach: the rare conditions each scenario is supposed to hit must actually be hit by its
/// generator (a probe stuck at zero means the workload or the fault mix must change).
fn cmd_probes(args: &[String]) -> i32 {
    let runs: u64 = arg_val(args, "--runs").and_then(|s| s.parse().ok()).unwrap_or(3000);
    let env = Arc::new(Env::load().unwrap_or_else(|e| die(&e)));
    let known = Arc::new(KnownFindings::load(&format!("{}/known_findings.json", env.paths.verif)).unwrap_or_else(|e| die(&e)));
    let required: Vec<(Scenario, Vec<&str>)> = vec![
        (Scenario::Crashfree, vec!["probe.keypad_enter_or_equals", "probe.composition_ge_32", "probe.update_phonetic_to_fixed", "probe.update_fixed_to_phonetic", "probe.update_fixed_to_fixed", "probe.update_same_layout", "probe.learning_commit_saved_or_tried", "fault.process_restart", "op.ctrl_bs", "op.finish", "fault.save_failed_in_history_scenario", "fault.dir_Missing", "fault.dir_ReadOnly", "fault.file_document.Store"]),
        (Scenario::Wellformed, vec!["oracle.sel_in_range_judged", "oracle.aux_fixed_compared", "oracle.aux_phonetic_judged", "probe.composition_ge_32", "fault.save_failed_in_history_scenario", "fault.dir_Missing", "fault.dir_ReadOnly", "fault.file_document.Store"]),
        (Scenario::HistoryIndependence, vec!["oracle.C05_execution_compared", "fault.process_restart", "op.drain", "probe.update_same_layout", "fault.file_moved_aside.Autocorrect", "fault.file_moved_back.Autocorrect"]),
        (Scenario::SessionReset, vec!["oracle.twin_compared", "oracle.idle_backspace_judged", "oracle.drain_liveness_judged", "oracle.empty_backspace_judged", "oracle.idle_after_terminator_judged", "probe.twin_forked", "probe.learning_commit_saved_or_tried", "fault.save_failed_in_history_scenario", "probe.update_in_lock_step", "probe.update_same_layout"]),
        (Scenario::LearnedDurability, vec!["oracle.L1_judged", "oracle.L2_judged", "oracle.L3_judged", "oracle.L4_store_shape_judged", "fault.process_restart", "oracle.L3_judged_list_off"]),
        (Scenario::UserfileFaults, vec![
            "fault.crash_during_save", "fault.torn_inside", "fault.torn_at_0", "fault.file_truncate.Store", "fault.file_truncate.Autocorrect", "fault.file_document.Store", "fault.file_document.Autocorrect",
            "fault.file_absent.Store", "fault.file_empty.Store", "fault.file_bitflip.Store", "fault.dir_Missing", "fault.dir_ReadOnly", "fault.save_open_fails.NotFound", "fault.save_open_fails.Access", "fault.save_open_fails.Rofs",
            "fault.save_fails_after.NoSpace", "fault.save_fails_after.Io", "fault.power_loss_reverted_file", "fault.process_restart", "probe.created_over_unreadable_store", "probe.created_over_unreadable_autocorrect",
            "oracle.F3_failed_save_judged", "oracle.F4_recovery_judged", "oracle.F4_new_context_judged", "oracle.twin_compared", "oracle.L1_planted_judged", "probe.update_phonetic_to_fixed",
        ]),
        (Scenario::Reconfigure, vec!["oracle.twin_compared", "probe.update_phonetic_to_fixed", "probe.update_fixed_to_phonetic", "probe.update_fixed_to_fixed", "probe.update_same_layout", "fault.file_document.Autocorrect", "fault.mtime_tie", "fault.mtime_regress", "probe.learning_commit_saved_or_tried"]),
        (Scenario::FixedRules, vec!["oracle.C12_step_judged", "oracle.C12_backspace_judged", "probe.update_same_layout"]),
        (Scenario::Reph, vec!["oracle.reph_placement_judged", "oracle.reph_conservation_judged", "oracle.reph_off_judged", "probe.reph_on_empty", "probe.update_same_layout"]),
        (Scenario::KarOrderEquiv, vec!["oracle.C14_syllable_compared", "oracle.C14_pending_judged", "oracle.C14_pending_backspace_judged", "oracle.C14_midway_compared", "probe.update_same_layout", "probe.commit_with_nothing_shown_becomes_finish"]),
    ];
    let mut rc = 0;
    for (scenario, names) in required {
        let cfg = BatchCfg { scenario, tier: Tier::Quick, verif_seed: DEFAULT_SEED, runs, workers: workers_default(), wall_cap: Duration::from_secs(600), first_index: 0, tally: false };
        let res = run_batch(&env, &known, &cfg);
        if let Some(e) = res.harness_error {
            die(&e);
        }
        let missing: Vec<&str> = names.iter().filter(|n| res.stats.get(n) == 0).cloned().collect();
        if missing.is_empty() {
            println!("probes {}: all {} required probes hit in {} runs", scenario.property(), names.len(), res.completed_runs);
        } else {
            println!("probes {}: NEVER HIT in {} runs: {}", scenario.property(), res.completed_runs, missing.join(", "));
            rc = 2;
        }
    }
    rc
}

fn cmd_show(args: &[String]) -> i32 {
    let prop = args.get(0).cloned().unwrap_or_else(|| die("show: property id missing"));
    let scenario = Scenario::from_property(&prop).unwrap_or_else(|| die("unknown property"));
    let tier = parse_tier(args.get(1).map(|s| s.as_str()).unwrap_or("quick"));
    let index: u64 = args.get(2).and_then(|s| s.parse().ok()).unwrap_or(0);
    let verif_seed: u64 = std::env::var("VERIF_SEED").ok().and_then(|s| s.parse().ok()).unwrap_or(DEFAULT_SEED);
    let env = Env::load().unwrap_or_else(|e| die(&e));
    let plan = Gen::new(&env, run_seed(verif_seed, scenario, index), tier).plan(scenario);
    println!("prelude: {:?}", plan.prelude);
    let mut st = Stats::default();
    let (o, log) = execute(&env, &plan, &mut st, exec_opts(scenario, true));
    for l in &log {
        println!("{}", l);
    }
    println!("end: {:?}", o.end);
    println!("digest: {:016x}", o.digest);
    for (k, v) in &st.counters {
        println!("  {} = {}", k, v);
    }
    0
}

fn main() {
    setup_process();
    let args: Vec<String> = std::env::args().skip(1).collect();
    let code = match args.first().map(|s| s.as_str()) {
        Some("run") => cmd_run_parent(&args[1..]),
        Some("run-inner") => {
            watch::install_signal_handler();
            watch::spawn_watchdog();
            cmd_run(&args[1..])
        }
        Some("selftest-crash-inner") => {
            // deliberately kills this process (stack overflow or abort) with a breadcrumb set
            watch::install_signal_handler();
            watch::set_worker(0);
            watch::begin_run(4242);
            if args.get(1).map(|s| s.as_str()) == Some("abort") {
                std::process::abort();
            }
            #[inline(never)]
            fn deep(n: u64) -> u64 {
                let pad = std::hint::black_box([n; 512]);
                if std::hint::black_box(n) == u64::MAX { 0 } else { deep(n + 1).wrapping_add(pad[(n % 512) as usize]) }
            }
            println!("{}", deep(std::hint::black_box(0)));
            0
        }
        Some("selftest-crash") => {
            // the breadcrumb machinery for calls that kill the process
            let mut rc = 0;
            for kind in ["overflow", "abort"] {
                let (end, out) = watch::run_child(&["selftest-crash-inner".to_string(), kind.to_string()], Duration::from_secs(60), false);
                let ok = matches!(end, watch::ChildEnd::Exit(c) if c == watch::EXIT_SUSPECT)
                    && watch::parse_suspect(&out).map(|(k, r, _)| k == "signal" && r == vec![4242]).unwrap_or(false);
                println!("crash breadcrumb ({}): child ended {:?}, breadcrumb {}", kind, end, if ok { "ok" } else { "MISSING" });
                if !ok {
                    rc = 2;
                }
            }
            rc
        }
        Some("seq-digest") => cmd_seq_digest(&args[1..]),
        Some("replay") => cmd_replay_parent(&args[1..]),
        Some("replay-inner") => {
            watch::install_signal_handler();
            cmd_replay(&args[1..])
        }
        Some("digests") => cmd_digests(&args[1..]),
        Some("show") => cmd_show(&args[1..]),
        Some("fsmodel") => cmd_fsmodel(&args[1..]),
        Some("probes") => cmd_probes(&args[1..]),
        Some("ffi-child") => ffi_run::cmd_child(&args[1..]),
        Some("ffi") => {
            let env = Arc::new(Env::load().unwrap_or_else(|e| die(&e)));
            ffi_run::cmd_run(&env, args.get(1).map(|s| s.as_str()).unwrap_or("quick"), &args[1..])
        }
        _ => {
            eprintln!("usage: riti-sim run|replay|digests|show ...");
            2
        }
    };
    std::process::exit(code);
}
