#!/bin/bash
# Runs every registered quick check once on /repo as it is, validates MANIFEST and the
# evidence files against their schemas. Used before committing evidence.
cd "$(dirname "$0")"
if [ -n "$(git -C /repo status --porcelain --untracked-files=no)" ]; then echo "/repo working tree is not clean"; exit 2; fi
rc=0
for p in C01 C02 C05 C06 C09 C10 C11 C12 C13 C14 C19; do
  out=$(./check $p ${1:-quick} 2>&1); code=$?
  echo "$out" | grep -E "^(OK property|VIOLATION|HARNESS-ERROR|KNOWN-FINDING)" | cut -c1-160
  [ $code -ne 0 ] && { echo "$p exit $code"; rc=1; }
done
python3-vt - <<'PY'
import json,jsonschema,sys
m=json.load(open('/verif/MANIFEST.json'))
jsonschema.validate(m,json.load(open('/root/.vp/MANIFEST.schema.json')))
s=json.load(open('/root/.vp/EVIDENCE.schema.json'))
bad=0
for c in m['checks']:
    e=json.load(open(c['evidence_file'])); jsonschema.validate(e,s)
    ok = e['level']==c['level_claimed']['category'] and e['violations']==0
    print(c['property_id'], e['tier'], e['level'], 'evals',e['coverage']['evaluations'],'distinct',e['coverage']['distinct_nontrivial'], 'OK' if ok else 'PROBLEM')
    bad += (not ok)
sys.exit(1 if bad else 0)
PY
[ $? -ne 0 ] && rc=1
exit $rc
