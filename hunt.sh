#!/bin/bash
# hunt.sh <first seed> <last seed> [props...]: thorough tiers under other VERIF_SEED values, looking
# for genuine defects the default seed has not reached. Violations (with their replay files) are
# copied to /root/hunt/ so that they survive the removal of a `vp run` snapshot. Not a registered
# check: a tool for the maintainer of /verif.
cd "$(dirname "$0")"
mkdir -p /root/hunt
first="$1"; last="$2"; shift; shift
props="${*:-C09 C10 C06 C05 C11 C02 C01}"
for seed in $(seq "$first" "$last"); do
  for p in $props; do
    out=$(VERIF_SEED=$seed ./check $p thorough 2>&1)
    echo "$out" | grep -E "^(OK property|VIOLATION|HARNESS-ERROR|violated clause|detail)" | sed "s/^/seed $seed $p: /" | cut -c1-500
    rp=$(echo "$out" | grep -oE "replay=[^ ]+" | head -1 | cut -d= -f2)
    if [ -n "$rp" ] && [ -f "$rp" ]; then cp "$rp" "/root/hunt/seed${seed}-$(basename "$rp")"; fi
  done
done
